-------------------------- MODULE MC_dbft_antiMEV --------------------------
(* Contract wrapper for the UNMODIFIED /repo/formal-models/dbft_antiMEV/dbft.tla *)
(* (MEV-resistant dBFT; the shipped module is also called `dbft`, so this        *)
(* wrapper must sit in a directory that holds the anti-MEV copy of dbft.tla).    *)
EXTENDS Integers, FiniteSets

CONSTANTS
  \* @type: Set(Int);
  RMFault,
  \* @type: Set(Int);
  RMDead

RM == {0, 1, 2, 3}
MaxView == 1

VARIABLES
  \* @type: Int -> { type: Str, view: Int };
  rmState,
  \* @type: Set({ type: Str, rm: Int, view: Int });
  msgs

INSTANCE dbft

ConstInit ==
  /\ RMFault \in SUBSET RM
  /\ RMDead \in SUBSET RM
  /\ Cardinality(RMFault) <= F
  /\ Cardinality(RMDead) <= F
  /\ Cardinality(RMFault \cup RMDead) <= F

VB == MaxView + 1
StateTypes == {"initialized", "prepareSent", "commitSent", "cv", "commitAckSent", "blockAccepted", "bad", "dead"}
MsgTypes == {"PrepareRequest", "PrepareResponse", "Commit", "CommitAck", "ChangeView"}

IndInv ==
  \* I1/I2: bounded version of TypeOK
  /\ rmState \in [RM -> [type: StateTypes, view: 0..VB]]
  /\ msgs \in SUBSET [type: MsgTypes, rm: RM, view: 0..VB]
  \* I3: stated invariant, at most F bad or dead nodes
  /\ InvFaultNodesCount
  \* I4/I5: only nodes that are permitted to may be bad / dead
  /\ \A r \in RM: rmState[r].type = "bad" => r \in RMFault
  /\ \A r \in RM: rmState[r].type = "dead" => r \in RMDead
  \* I6 (commit lock): a Commit of a never-faulty node was sent in the view the node is still in
  /\ \A m \in msgs: (m.type = "Commit" /\ m.rm \notin RMFault) =>
        /\ rmState[m.rm].view = m.view
        /\ rmState[m.rm].type \in {"commitSent", "commitAckSent", "blockAccepted", "dead"}
  \* I7: CommitAck is sent / a block is accepted only in a view that has M Commit messages
  /\ \A r \in RM: rmState[r].type \in {"commitAckSent", "blockAccepted"} =>
        Cardinality({m \in msgs: m.type = "Commit" /\ m.view = rmState[r].view}) >= M

IndInit == IndInv /\ MaxViewConstraint
Target == TypeOK /\ InvTwoBlocksAccepted /\ InvFaultNodesCount

\* Non-vacuity probe, expected to be VIOLATED: Apalache must exhibit a state of IndInit
\* in which two nodes have accepted a block (so IndInit is not empty / trivial).
VacuityProbe == Cardinality({r \in RM: rmState[r].type = "blockAccepted"}) < 2
=============================================================================
