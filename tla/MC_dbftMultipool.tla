-------------------------- MODULE MC_dbftMultipool --------------------------
(* Contract wrapper for the UNMODIFIED                                        *)
(* /repo/formal-models/dbftMultipool/dbftMultipool.tla (dBFT 2.0 with a local *)
(* message pool per node).  Constants as in dbftMultipool___AllGoodModel.launch*)
(* (MaxView = 1, MaxUndeliveredMessages = 6); RMFault / RMDead symbolic.      *)
(* NOTE: Init of this model starts every node in view 1 = MaxView, so under   *)
(* the shipped state constraint no node ever acts in a second view; the       *)
(* invariant below records exactly that.                                      *)
EXTENDS Integers, FiniteSets

CONSTANTS
  \* @type: Set(Int);
  RMFault,
  \* @type: Set(Int);
  RMDead

RM == {0, 1, 2, 3}
MaxView == 1
MaxUndeliveredMessages == 6

VARIABLES
  \* @type: Int -> { type: Str, view: Int, pool: Set({ type: Str, rm: Int, view: Int }) };
  rmState,
  \* @type: Set({ type: Str, rm: Int, view: Int });
  msgs

INSTANCE dbftMultipool

\* The ASSUME of dbftMultipool.tla for the constants left symbolic.
ConstInit ==
  /\ RMFault \in SUBSET RM
  /\ RMDead \in SUBSET RM
  /\ Cardinality(RMFault) <= F
  /\ Cardinality(RMDead) <= F
  /\ Cardinality(RMFault \cup RMDead) <= F

VB == MaxView + 1
StateTypes == {"initialized", "prepareSent", "commitSent", "blockAccepted", "bad", "dead"}
MsgTypes == {"PrepareRequest", "PrepareResponse", "Commit", "ChangeView"}
\* every behaviour starts in view 1 and messages are only sent in views <= MaxView
MsgSpace == [type: MsgTypes, rm: RM, view: 1..MaxView]

\* TypeGen is the P1 clause of IndInv written with explicit witnesses for the four
\* pools; it is implied by P1 (a function with domain RM whose values are such
\* records IS the function constructed below), so IndInit below denotes the same
\* states as IndInv /\ ModelConstraint.  Apalache needs this form to *generate* an
\* arbitrary state (used as a generator, P1 makes it enumerate SUBSET MsgSpace, 2^16 sets).
TypeGen ==
  \E t \in [RM -> StateTypes], w \in [RM -> 1..VB]:
    \E p0 \in SUBSET MsgSpace, p1 \in SUBSET MsgSpace, p2 \in SUBSET MsgSpace, p3 \in SUBSET MsgSpace:
      rmState = [r \in RM |-> [type |-> t[r], view |-> w[r],
                               pool |-> IF r = 0 THEN p0 ELSE IF r = 1 THEN p1 ELSE IF r = 2 THEN p2 ELSE p3]]

IndInv ==
  \* P1/P2: bounded TypeOK; P1 is  rmState \in [RM -> [type: StateTypes, view: 1..VB, pool: SUBSET MsgSpace]]
  \*        spelled out per node (the record type is fixed by the annotation of rmState)
  /\ DOMAIN rmState = RM
  /\ \A r \in RM: /\ rmState[r].type \in StateTypes
                  /\ rmState[r].view \in 1..VB
                  /\ rmState[r].pool \subseteq MsgSpace
  /\ msgs \in SUBSET MsgSpace
  \* P3..P5: fault bookkeeping
  /\ InvFaultNodesCount
  /\ \A r \in RM: rmState[r].type = "bad" => r \in RMFault
  /\ \A r \in RM: rmState[r].type = "dead" => r \in RMDead
  \* P6: a node that went beyond MaxView has just changed its view (or is Byzantine);
  \*     in particular it has neither committed nor accepted a block there
  /\ \A r \in RM: rmState[r].view > MaxView => rmState[r].type \in {"initialized", "bad"}

\* The shipped state constraint of this model is ModelConstraint
\* (= MaxViewConstraint /\ MaxUndeliveredMessageConstraint).
IndInit == TypeGen /\ IndInv /\ ModelConstraint
Target == TypeOK /\ InvTwoBlocksAccepted /\ InvDeadlock /\ InvFaultNodesCount

\* Non-vacuity probe, expected to be VIOLATED: Apalache must exhibit a state of IndInit
\* in which two nodes have accepted a block (so IndInit is not empty / trivial).
VacuityProbe == Cardinality({r \in RM: rmState[r].type = "blockAccepted"}) < 2
=============================================================================
