#!/bin/sh
# check_c20.sh <quick|thorough>  -- decides property C20 (the shipped TLA+ models keep their stated invariants).
# cwd-independent.  Copies the CURRENT /repo/formal-models/**.tla into a fresh mktemp -d scratch directory,
# discharges the inductive-invariant obligations of MC_*.tla with Apalache, uses TLC for bounded stand-ins,
# error traces and (thorough) cross-checks, writes /verif/evidence/C20.json, removes the scratch directory.
# Exit: 0 held / 1 VIOLATION / 2 undecided or tool error.  See README.md next to this file.
HERE=$(cd "$(dirname "$0")" && pwd)
for t in apalache-mc tlc tla-sany java; do
  command -v "$t" >/dev/null 2>&1 || { echo "C20: required tool '$t' is not on PATH"; exit 2; }
done
if command -v python3-vt >/dev/null 2>&1; then PY=python3-vt; else PY=python3; fi
exec "$PY" "$HERE/c20_driver.py" "${1:-quick}"
