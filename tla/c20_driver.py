#!/usr/bin/env python3
"""Driver of check_c20.sh: decides property C20 (the shipped TLA+ models keep their stated invariants).

Technique: contract-style deductive verification.  For every shipped specification there is a wrapper
MC_<name>.tla (this directory) that INSTANCEs the unmodified shipped module and states an inductive
invariant IndInv; three obligations per spec are discharged by Apalache (z3):
    init   : Init => IndInv
    step   : IndInv /\\ <shipped state constraint> /\\ Next => IndInv'
    target : IndInv /\\ <shipped state constraint> => the spec's own stated invariants
RMFault / RMDead are symbolic constants constrained by the module's own ASSUME (ConstInit).
TLC (explicit state) is used (a) as bounded stand-in for specs without an inductive invariant, (b) to search
for a real error trace when an obligation fails, (c) as a cross-check in the thorough tier.

Exit codes: 0 everything explored held (known findings are reported, not counted), 1 VIOLATION, 2 undecided /
tool error.  Only the python standard library is used.
"""
import concurrent.futures as cf
import hashlib
import itertools
import json
import os
import re
import shutil
import subprocess
import sys
import tempfile
import threading
import time

HERE = os.path.dirname(os.path.abspath(__file__))
VERIF = os.path.dirname(HERE)
REPO_MODELS = os.environ.get("C20_MODELS_DIR", "/repo/formal-models")
EVIDENCE = os.environ.get("C20_EVIDENCE", os.path.join(VERIF, "evidence", "C20.json"))
REPLAYS = os.environ.get("C20_REPLAYS", os.path.join(VERIF, "replays", "C20"))
KNOWN_FILE = os.environ.get("VERIF_KNOWN_FINDINGS", os.path.join(VERIF, "known_findings.txt"))
NCPU = os.cpu_count() or 4

RM = [0, 1, 2, 3]
F = (len(RM) - 1) // 3

# sha256 of the five specs in the tree on which every step below is known to pass (pristine checkout).
# Used only to classify a *tool crash*: crash on an edited spec => VIOLATION ... no-failing-input-found,
# crash on an unedited spec => engine error (exit 2).
BASELINE_SHA = {
    "dbft": "21da15aebb676052a994a695d97b40aa217d627c3dc728f97053d93031ff8e9c",
    "dbftCentralizedCV": "285cc5b654b9de53dcc039794ff72a1e2fcbcfcf208fb872ec0215fb7e103e55",
    "dbftCV3": "5054c7162d2ee57997c41493f903ab77c2caffc86deb284cd443a9233cb82391",
    "dbftMultipool": "2e9cef526e4d8854bd5739f47f677867adc830d3e9a602e99b35a76825b72219",
    "dbft_antiMEV": "121d585edb08479893350382e8c1dce13d68d58076da686802ebb8cf7d497dcf",
}

# proofs: list of obligation groups.  faults = "all": every fault set of the ASSUME is covered symbolically;
# "nofault": only RMFault = {} (RMDead symbolic).  base_s: seconds measured on the pristine tree, alone.
SPECS = [
    dict(id="dbft", src="dbft/dbft.tla", file="dbft.tla", wrapper="MC_dbft.tla",
         invs=["TypeOK", "InvTwoBlocksAccepted", "InvFaultNodesCount"], constraint="MaxViewConstraint",
         proofs=[dict(tag="", cinit="ConstInit", faults="all", base_s=dict(init=8, step=30, target=8))]),
    dict(id="dbft_antiMEV", src="dbft_antiMEV/dbft.tla", file="dbft.tla", wrapper="MC_dbft_antiMEV.tla",
         invs=["TypeOK", "InvTwoBlocksAccepted", "InvFaultNodesCount"], constraint="MaxViewConstraint",
         proofs=[dict(tag="", cinit="ConstInit", faults="all", base_s=dict(init=14, step=52, target=16))]),
    dict(id="dbftMultipool", src="dbftMultipool/dbftMultipool.tla", file="dbftMultipool.tla",
         wrapper="MC_dbftMultipool.tla",
         invs=["TypeOK", "InvTwoBlocksAccepted", "InvDeadlock", "InvFaultNodesCount"], constraint="ModelConstraint",
         proofs=[dict(tag="", cinit="ConstInit", faults="all", base_s=dict(init=8, step=50, target=10))]),
    dict(id="dbftCV3", src="dbft2.1_threeStagedCV/dbftCV3.tla", file="dbftCV3.tla", wrapper="MC_dbftCV3.tla",
         invs=["TypeOK", "InvTwoBlocksAccepted", "InvFaultNodesCount"], constraint="MaxViewConstraint",
         # The full ASSUME (RMFault non-empty) is NOT provable: the shipped model really violates
         # InvTwoBlocksAccepted with one Byzantine node (see witness/ and README.md).
         proofs=[dict(tag="nofault", cinit="ConstInitNoFault", faults="nofault",
                      base_s=dict(init=15, step=175, target=45), split=True,
                      split_base_s=dict(StepReceiveCV=60, StepCommit=50, StepCV12=50, StepCV3=40, StepAccept=40,
                                        StepPrepare=40, StepFaults=30))],
         witnesses=[dict(obligation="dbftCV3/faulty/InvTwoBlocksAccepted", module="W_dbftCV3_fault3",
                         rmfault=[3], rmdead=[])]),
    dict(id="dbftCentralizedCV", src="dbft2.1_centralizedCV/dbftCentralizedCV.tla", file="dbftCentralizedCV.tla",
         wrapper="MC_dbftCentralizedCV.tla",
         invs=["TypeOK", "InvTwoBlocksAcceptedAdvanced", "InvFaultNodesCount"], constraint="MaxViewConstraint",
         # inductive invariant only for RMFault = {}; Byzantine fault sets are left to TLC (thorough tier, bounded:
         # one configuration has 165 million distinct states, about 1 h on 8 cores)
         proofs=[dict(tag="nofault", cinit="ConstInitNoFault", faults="nofault",
                      base_s=dict(init=8, step=2400, target=55), split=True,
                      inv_parts=["IndInv1", "IndInv2"],  # IndInv == IndInv1 /\\ IndInv2 in the wrapper
                      inv_split_groups=["StepCommit", "StepCV2", "StepCV2Again", "StepAcceptBlock", "StepPrepareResponse"],
                      split_base_s=dict(StepAcceptBlock=300, StepFetchBlock=130, StepCommit=350, StepCV2=340,
                                        StepCV2Again=300, StepPrepareRequest=120, StepPrepareResponse=250,
                                        StepReceiveDoCV1=100, StepReceiveDoCV2=100, StepDoCV2=110, StepFaults=100,
                                        StepCV1=90, StepCV1Again=90, StepDoCV1=80))],
         byzantine_bounded=True),
]

def mem_slots():
    """How many Apalache jobs fit into the available memory (about 4.5 GB each for the largest spec)."""
    try:
        for line in open("/proc/meminfo"):
            if line.startswith("MemAvailable:"):
                return max(2, int(int(line.split()[1]) / 1024 / 1024 / 4.5))
    except (OSError, ValueError):
        pass
    return 4


def base_s(pr, ob):
    """Seconds this obligation took on the pristine tree (alone), used for scheduling and time-outs."""
    if ob.startswith("step:"):
        parts = ob.split(":")
        b = pr.get("split_base_s", {}).get(parts[1], pr["base_s"]["step"] / 2.0)
        return b if len(parts) == 2 else b * 0.7
    return pr["base_s"][ob]


print_lock = threading.Lock()


def say(msg):
    with print_lock:
        print(msg, flush=True)


def fault_sets(kind="all"):
    """All (RMFault, RMDead) allowed by the ASSUME of the specs for RM = {0,1,2,3}:
    both subsets of RM, |RMFault| <= F, |RMDead| <= F, |RMFault \\cup RMDead| <= F."""
    subs = [list(c) for k in range(0, F + 1) for c in itertools.combinations(RM, k)]
    out = []
    for a in subs:
        for b in subs:
            if len(set(a) | set(b)) <= F:
                if kind == "nofault" and a:
                    continue
                if kind == "faulty" and not a:
                    continue
                out.append((a, b))
    # all-good first, then Byzantine-only (highest index first: not a primary of views 0..2), then dead, then both
    out.sort(key=lambda p: (len(p[0]) + len(p[1]), 0 if p[0] and not p[1] else 1 if p[1] and not p[0] else 2,
                            [-x for x in p[0]], [-x for x in p[1]]))
    return out


def tla_set(xs):
    return "{" + ", ".join(str(x) for x in xs) + "}"


def cfg_name(fs):
    return "F%s_D%s" % ("".join(map(str, fs[0])) or "none", "".join(map(str, fs[1])) or "none")


def sha256(path):
    h = hashlib.sha256()
    with open(path, "rb") as f:
        h.update(f.read())
    return h.hexdigest()


def load_known():
    """known: entries of /verif/known_findings.txt and of known_findings_C20.txt next to this file."""
    known = {}
    for path in (os.path.join(HERE, "known_findings_C20.txt"), KNOWN_FILE):
        try:
            for line in open(path):
                m = re.match(r"^known:\s+property=(\S+)\s+obligation=(\S+)\s*(.*)$", line.strip())
                if m and m.group(1) == "C20":
                    known[m.group(2)] = m.group(3)
        except OSError:
            pass
    if os.environ.get("C20_IGNORE_KNOWN"):
        known = {}
    return known


def run(cmd, cwd, log, timeout, env=None):
    """Run cmd, write stdout+stderr to log.  Returns (rc or None on timeout, seconds)."""
    t0 = time.time()
    with open(log, "wb") as lf:
        p = subprocess.Popen(cmd, cwd=cwd, stdout=lf, stderr=subprocess.STDOUT, env=env, start_new_session=True)
        try:
            rc = p.wait(timeout=timeout)
        except subprocess.TimeoutExpired:
            try:
                os.killpg(p.pid, 9)
            except OSError:
                pass
            p.wait()
            rc = None
    return rc, time.time() - t0


# ---------------------------------------------------------------------------------------------- Apalache
OB_ARGS = {
    # probe: non-vacuity check, EXPECTED to produce a counterexample (a state of IndInit with two accepted blocks)
    "probe": ["--init=IndInit", "--inv=VacuityProbe", "--length=0"],
    "init": ["--init=Init", "--inv=IndInv", "--length=0"],
    # IndInit contains IndInv, so the invariant is only checked after the step (invariantFilter), not in state 0
    "step": ["--init=IndInit", "--inv=IndInv", "--length=1", "--tuning-options=search.invariantFilter=1->.*"],
    "target": ["--init=IndInit", "--inv=Target", "--length=0"],
}


def ob_args(ob):
    if ob.startswith("step:"):  # one group of actions of a split step obligation [: one part of IndInv]
        parts = ob.split(":")
        return ["--init=IndInit", "--next=" + parts[1], "--inv=" + (parts[2] if len(parts) > 2 else "IndInv"), "--length=1",
                "--tuning-options=search.invariantFilter=1->.*"]
    return OB_ARGS[ob]


ACTION_RE = r"\b(RM[A-Z]\w*|Terminating\w*|OnTimeout)\b"


def split_groups(spec):
    """Groups of a split step obligation (operators Step* between BEGIN-SPLIT and END-SPLIT of the wrapper),
    or None if the wrapper has no split or the groups do not mention every action named in the shipped Next."""
    try:
        w = open(os.path.join(spec["dir"], spec["wrapper"])).read()
        t = open(os.path.join(spec["dir"], spec["file"])).read()
    except OSError:
        return None
    m = re.search(r"(?ms)^\\\* BEGIN-SPLIT(.*?)^\\\* END-SPLIT", w)
    n = re.search(r"(?m)^Next ==[^\n]*\n((?:[^\n]*\S[^\n]*\n)+)", t)
    if not m or not n:
        return None
    body = "\n".join(l for l in n.group(1).split("\n") if not l.lstrip().startswith("\\*"))
    shipped = set(re.findall(ACTION_RE, body))
    region = "\n".join(l for l in m.group(1).split("\n") if not l.lstrip().startswith("\\*"))
    covered = set(re.findall(ACTION_RE, region))
    if not shipped or not shipped <= covered:
        say("  %s: shipped Next names actions %s that the split step obligation does not list: using the monolithic step obligation" % (
            spec["id"], sorted(shipped - covered)))
        return None
    return re.findall(r"(?m)^(Step\w+) ==", region)


def apalache_obligation(spec, proof, ob, sdir, timeout):
    name = "/".join(x for x in (spec["id"], proof["tag"], ob.replace(":", ".")) if x)
    tag = (proof["tag"] + "_" if proof["tag"] else "") + ob.replace(":", "_")
    rundir = os.path.join(sdir, "run_" + tag)
    log = os.path.join(sdir, "apalache_%s.log" % tag)
    cmd = ["apalache-mc", "check", "--out-dir=" + os.path.join(sdir, "apalache-out"), "--run-dir=" + rundir,
           "--cinit=" + proof["cinit"], "--no-deadlock"] + ob_args(ob) + [spec["wrapper"]]
    # One Apalache job of the largest spec needs about 2 GB of JVM heap plus 2 GB of native z3 memory; the default
    # 4 GB heap with G1 made 12 parallel jobs exceed 62 GB of RAM.  Serial GC: the job is single threaded anyway.
    env = dict(os.environ, JVM_ARGS=os.environ.get("C20_APALACHE_JVM_ARGS", "-Xmx2g"),
               JVM_GC_ARGS=os.environ.get("C20_APALACHE_GC_ARGS", "-XX:+UseSerialGC"))
    rc, secs = run(cmd, sdir, log, timeout, env)
    text = open(log, errors="replace").read()
    if rc is None:
        verdict = "timeout"
    elif rc == 0 and "The outcome is: NoError" in text:
        verdict = "proved"
    elif rc == 12 or "The outcome is: Error" in text:
        verdict = "counterexample"  # for step: counterexample to induction; for init/target: a real refutation
    else:
        verdict = "tool-error"
    cex = None
    if verdict == "counterexample":
        for fn in ("violation1.tla", "violation.tla", "counterexample1.tla", "counterexample.tla"):
            p = os.path.join(rundir, fn)
            if os.path.exists(p):
                cex = p
                break
    if ob == "probe" and verdict == "counterexample":
        cex = None
    return dict(spec=spec["id"], obligation=name, kind=ob.split(":")[0], verdict=verdict, seconds=round(secs, 1), rc=rc,
                log=log, cex=cex, cmd="apalache-mc check --cinit=%s --no-deadlock %s %s" % (
                    proof["cinit"], " ".join(ob_args(ob)), spec["wrapper"]), faults=proof["faults"])


# ---------------------------------------------------------------------------------------------- TLC
def write_cfg(spec, sdir, fs):
    tmpl = open(os.path.join(HERE, "cfg", spec["id"] + "_allgood.cfg")).read()
    tmpl = re.sub(r"RMFault = \{\}", "RMFault = " + tla_set(fs[0]), tmpl)
    tmpl = re.sub(r"RMDead = \{\}", "RMDead = " + tla_set(fs[1]), tmpl)
    path = os.path.join(sdir, "tlc_%s.cfg" % cfg_name(fs))
    open(path, "w").write(tmpl)
    return path


def parse_tlc(text):
    res = dict(distinct_states=None, states_generated=None, depth=None, violated=None)
    m = re.findall(r"([\d,]+) states generated(?: \([^)]*\))?, ([\d,]+) distinct states found", text)
    if m:
        res["states_generated"] = int(m[-1][0].replace(",", ""))
        res["distinct_states"] = int(m[-1][1].replace(",", ""))
    m = re.search(r"depth of the complete state graph search is (\d+)", text)
    if m:
        res["depth"] = int(m.group(1))
    m = re.search(r"Error: Invariant (\S+) is violated", text)
    if m:
        res["violated"] = m.group(1)
    return res


def tlc_run(spec, sdir, fs, workers, timeout, module_file=None, cfg=None, label=None):
    label = label or cfg_name(fs)
    cfg = cfg or write_cfg(spec, sdir, fs)
    log = os.path.join(sdir, "tlc_%s.log" % label)
    meta = os.path.join(sdir, "tlc_meta_" + label)
    cmd = ["tlc", "-workers", str(workers), "-deadlock", "-noGenerateSpecTE", "-metadir", meta,
           "-config", cfg, module_file or spec["file"]]
    rc, secs = run(cmd, sdir, log, timeout)
    shutil.rmtree(meta, ignore_errors=True)  # fingerprint files of large runs: free the disk early
    text = open(log, errors="replace").read()
    r = parse_tlc(text)
    if rc is None:
        status = "incomplete"  # time budget exhausted, nothing found so far
    elif r["violated"]:
        status = "violation"
    elif "Model checking completed. No error has been found." in text:
        status = "complete"
    else:
        status = "tool-error"
    r.update(spec=spec["id"], config=label, RMFault=tla_set(fs[0]), RMDead=tla_set(fs[1]), status=status,
             seconds=round(secs, 1), workers=workers, log=log,
             cmd="tlc -workers %d -deadlock -noGenerateSpecTE -config %s %s" % (
                 workers, os.path.basename(cfg), module_file or spec["file"]))
    return r


def tlc_trace(text):
    """The error part of a TLC log: from the first 'Error:' line to the statistics."""
    i = text.find("Error: Invariant")
    if i < 0:
        i = text.find("Error:")
    j = text.find("states generated", i)
    j = text.rfind("\n", 0, j) if j > 0 else len(text)
    return text[i:j].rstrip() + "\n"


# ---------------------------------------------------------------------------------------------- replays
def write_replay(name, header, body):
    os.makedirs(REPLAYS, exist_ok=True)
    path = os.path.join(REPLAYS, re.sub(r"[^A-Za-z0-9_.-]", "_", name) + ".txt")
    with open(path, "w") as f:
        f.write(header.rstrip() + "\n\n" + body)
    return path


def replay_header(spec, what, tlc=None, ob=None):
    lines = ["property: C20 (the shipped TLA+ models keep their stated invariants)",
             "spec: %s/%s (sha256 %s)" % (REPO_MODELS, spec["src"], spec.get("sha", "?")),
             "what: " + what]
    if ob:
        lines.append("failed obligation: %s  [%s]  verdict=%s after %ss" % (ob["obligation"], ob["cmd"], ob["verdict"], ob["seconds"]))
    if tlc:
        lines.append("TLC configuration: RM = {0, 1, 2, 3}, RMFault = %s, RMDead = %s, MaxView = 1, CONSTRAINT %s, INVARIANTS %s" % (
            tlc["RMFault"], tlc["RMDead"], spec["constraint"], " ".join(spec["invs"])))
        lines.append("reproduce: copy the spec and /verif/tla/cfg/%s_allgood.cfg to a scratch directory, set RMFault/RMDead as above, run: %s" % (spec["id"], tlc["cmd"]))
    return "\n".join(lines)


# ---------------------------------------------------------------------------------------------- main
def main():
    tier = sys.argv[1] if len(sys.argv) > 1 else "quick"
    if tier not in ("quick", "thorough"):
        print("usage: check_c20.sh <quick|thorough>")
        return 2
    try:
        seed = int(os.environ.get("VERIF_SEED", "0"))
    except ValueError:
        seed = 0
    only = set(filter(None, os.environ.get("C20_ONLY", "").split(",")))  # debugging aid: restrict to some spec ids
    t_start = time.time()
    known = load_known()
    scratch = tempfile.mkdtemp(prefix="c20_")
    state = dict(violations=[], known_hits=[], undecided=[], errors=[], samples=[], tlc_runs=[], standins=[],
                 undecided_induction=[])
    try:
        rc = work(tier, seed, only, known, scratch, state, t_start)
    finally:
        shutil.rmtree(scratch, ignore_errors=True)
    return rc


def work(tier, seed, only, known, scratch, st, t_start):
    specs = [s for s in SPECS if not only or s["id"] in only]
    ap_timeout_factor = float(os.environ.get("C20_APALACHE_TIMEOUT_FACTOR", "6" if tier == "quick" else "12"))
    # ---- (a) fresh copy of the CURRENT shipped specs + wrappers
    for s in specs:
        sdir = os.path.join(scratch, s["id"])
        os.makedirs(sdir)
        s["dir"] = sdir
        src = os.path.join(REPO_MODELS, s["src"])
        if not os.path.exists(src):
            say("C20: shipped specification %s is missing" % src)
            st["errors"].append(dict(spec=s["id"], step="copy", detail="missing " + src))
            s["broken"] = True
            continue
        shutil.copy(src, os.path.join(sdir, s["file"]))
        s["sha"] = sha256(src)
        s["edited"] = s["sha"] != BASELINE_SHA[s["id"]]
        w = os.path.join(HERE, s["wrapper"])
        if os.path.exists(w):
            shutil.copy(w, sdir)
        for wit in s.get("witnesses", []):
            shutil.copy(os.path.join(HERE, "witness", wit["module"] + ".tla"), sdir)
            shutil.copy(os.path.join(HERE, "witness", wit["module"] + ".cfg"), sdir)

    # ---- preflight: every shipped spec must parse (SANY), ~1 s each
    def sany(s):
        rc, secs = run(["tla-sany", s["file"]], s["dir"], os.path.join(s["dir"], "sany.log"), 120)
        text = open(os.path.join(s["dir"], "sany.log"), errors="replace").read()
        ok = rc == 0 and not re.search(r"\*\*\* Errors|Fatal errors|Parsing or semantic analysis failed|Could not parse", text)
        return s, ok, text
    with cf.ThreadPoolExecutor(max_workers=5) as ex:
        for s, ok, text in ex.map(sany, [s for s in specs if not s.get("broken")]):
            if not ok:
                s["broken"] = True
                tool_failure(st, s, "sany", "tla-sany " + s["file"], text)

    live = [s for s in specs if not s.get("broken")]

    # ---- job lists
    ap_jobs = []
    for s in live:
        for pr in s["proofs"]:
            groups = split_groups(s) if pr.get("split") else None
            if groups:
                for g in groups:
                    if g in pr.get("inv_split_groups", ()):  # expensive action: one job per half of IndInv
                        for part in pr["inv_parts"]:
                            ap_jobs.append((s, pr, "step:%s:%s" % (g, part)))
                    else:
                        ap_jobs.append((s, pr, "step:" + g))
            else:
                ap_jobs.append((s, pr, "step"))
            ap_jobs.append((s, pr, "target"))
            ap_jobs.append((s, pr, "init"))
    ap_jobs.sort(key=lambda j: -base_s(j[1], j[2]))  # longest first
    bounded_only = [s for s in live if not s["proofs"]]

    results = []
    tlc_done = {}  # (spec id, cfg name) -> tlc result, to avoid repeating a configuration

    def do_ap(job):
        s, pr, ob = job
        r = apalache_obligation(s, pr, ob, s["dir"], max(600.0, ap_timeout_factor * base_s(pr, ob)))
        say("  apalache %-34s %-14s %6.1fs" % (r["obligation"], r["verdict"], r["seconds"]))
        return r

    def do_witness(s, wit):
        # Re-validate a stored error trace against the CURRENT spec: W_<x>.tla EXTENDS the shipped module and
        # only allows the steps of the recorded trace; TLC reports the invariant violation iff the trace is
        # still a behaviour of the spec.
        fs = (wit["rmfault"], wit["rmdead"])
        r = tlc_run(s, s["dir"], fs, 2, 300, module_file=wit["module"] + ".tla",
                    cfg=os.path.join(s["dir"], wit["module"] + ".cfg"), label="witness_" + wit["module"])
        r["witness_for"] = wit["obligation"]
        say("  tlc      %-34s %-14s %6.1fs (replay of the stored error trace)" % (
            s["id"] + "/" + r["config"], r["status"], r["seconds"]))
        return r

    # quick tier: Apalache obligations in parallel + TLC all-good for the bounded-only specs + witnesses
    n_tlc_bg = len(bounded_only)
    tlc_bg_workers = max(2, min(8, NCPU // 2)) if n_tlc_bg else 0
    ap_par = max(1, int(os.environ.get("C20_APALACHE_PAR", str(max(2, min((NCPU - tlc_bg_workers) * 3 // 4, mem_slots()))))))
    say("C20 %s: %d Apalache obligations (%d in parallel), %d bounded-only spec(s), scratch %s" % (
        tier, len(ap_jobs), ap_par, len(bounded_only), scratch))
    tlc_budget = float(os.environ.get("C20_TLC_ALLGOOD_TIMEOUT", "1500" if tier == "quick" else "7200"))
    with cf.ThreadPoolExecutor(max_workers=ap_par) as apx, cf.ThreadPoolExecutor(max_workers=2) as tlx:
        ap_f = [apx.submit(do_ap, j) for j in ap_jobs]
        bg_f = []
        for s in bounded_only:
            bg_f.append((s, tlx.submit(tlc_run, s, s["dir"], ([], []), tlc_bg_workers, tlc_budget)))
        wit_f = [(s, w, tlx.submit(do_witness, s, w)) for s in live for w in s.get("witnesses", [])]
        results = [f.result() for f in ap_f]
        bg_res = [(s, f.result()) for s, f in bg_f]
        wit_res = [(s, w, f.result()) for s, w, f in wit_f]

    for s, r in bg_res:
        tlc_done[(s["id"], r["config"])] = r
        st["tlc_runs"].append(r)
        say("  tlc      %-34s %-14s %6.1fs %s distinct states" % (s["id"] + "/" + r["config"], r["status"], r["seconds"], r["distinct_states"]))
        handle_tlc_result(st, s, r, known, None)

    # ---- known-finding witnesses
    for s, wit, r in wit_res:
        st["tlc_runs"].append(r)
        if r["status"] == "violation":
            report_violation(st, s, r, known, wit["obligation"], None,
                             "stored error trace replayed on the current spec: it is a behaviour of the spec and ends in a state violating " + str(r["violated"]))
        else:
            # the stored trace is no longer a behaviour (spec edited): search from scratch over the Byzantine fault sets
            say("  witness %s no longer replays (%s); searching with TLC" % (wit["module"], r["status"]))
            found = False
            for fs in fault_sets("faulty"):
                rr = tlc_run(s, s["dir"], fs, NCPU, 900 if tier == "quick" else 3600)
                tlc_done[(s["id"], rr["config"])] = rr
                st["tlc_runs"].append(rr)
                say("  tlc      %-34s %-14s %6.1fs %s distinct states" % (s["id"] + "/" + rr["config"], rr["status"], rr["seconds"], rr["distinct_states"]))
                if handle_tlc_result(st, s, rr, known, None, force_obligation=wit["obligation"]):
                    found = True
                    break
                if rr["status"] != "complete":
                    st["undecided"].append(dict(spec=s["id"], obligation=wit["obligation"], detail="TLC %s on %s" % (rr["status"], rr["config"])))
                    break
            if not found and not st["undecided"]:
                say("NOTE property=C20 obligation=%s no longer fails: TLC exhausted every Byzantine fault set without error" % wit["obligation"])

    # ---- Apalache results
    failed = []
    for r in results:
        st["samples"].append({k: r[k] for k in ("spec", "obligation", "verdict", "seconds")})
        if r["verdict"] != "proved":
            failed.append(r)

    # ---- (c) failed obligations: look for a real error trace with TLC over the fault sets the obligation covers
    by_spec = {}
    for r in failed:
        by_spec.setdefault(r["spec"], []).append(r)
    for sid, obs in by_spec.items():
        s = next(x for x in live if x["id"] == sid)
        tool_errs = [o for o in obs if o["verdict"] == "tool-error"]
        if tool_errs:
            o = tool_errs[0]
            tool_failure(st, s, o["obligation"], o["cmd"], open(o["log"], errors="replace").read()[-20000:])
            continue
        ob = obs[0]
        cti = ""
        for o in obs:
            if o["cex"]:
                cti += "\n---- %s: Apalache counterexample (%s; a state satisfying IndInv, NOT necessarily reachable) ----\n" % (o["obligation"], os.path.basename(o["cex"]))
                cti += open(o["cex"], errors="replace").read()
        say("  obligation(s) %s failed (%s): searching for a real error trace with TLC" % (
            ", ".join(o["obligation"] for o in obs), ", ".join(o["verdict"] for o in obs)))
        found = False
        exhausted = True
        for fs in fault_sets(ob["faults"]):
            key = (sid, cfg_name(fs))
            rr = tlc_done.get(key)
            if rr is None or rr["status"] == "incomplete":
                rr = tlc_run(s, s["dir"], fs, NCPU, float(os.environ.get("C20_TLC_FALLBACK_TIMEOUT", "900" if tier == "quick" else "3600")))
                tlc_done[key] = rr
                st["tlc_runs"].append(rr)
                say("  tlc      %-34s %-14s %6.1fs %s distinct states" % (sid + "/" + rr["config"], rr["status"], rr["seconds"], rr["distinct_states"]))
            if handle_tlc_result(st, s, rr, known, ob, cti=cti):
                found = True
                break
            if rr["status"] != "complete":
                exhausted = False
                break
        if found:
            continue
        if exhausted:
            for o in obs:
                say("UNDECIDED-INDUCTION property=C20 obligation=%s (TLC exhaustive check passed)" % o["obligation"])
                st["undecided_induction"].append(o["obligation"])
            st["standins"].append(dict(spec=sid, reason="obligation(s) %s not discharged (%s); bounded property established by TLC" % (
                ", ".join(o["obligation"] for o in obs), ", ".join(o["verdict"] for o in obs)),
                fault_sets=ob["faults"],
                tlc=[summ(tlc_done[(sid, cfg_name(fs))]) for fs in fault_sets(ob["faults"])]))
        else:
            st["undecided"].append(dict(spec=sid, obligation=ob["obligation"],
                                        detail="obligation %s and TLC did not finish within its time budget" % ob["verdict"]))

    # ---- thorough tier: non-vacuity probes (IndInit must contain a state with two accepted blocks)
    if tier == "thorough":
        pj = [(s, pr) for s in live for pr in s["proofs"]]
        with cf.ThreadPoolExecutor(max_workers=8) as ex:
            for r in ex.map(lambda j: apalache_obligation(j[0], j[1], "probe", j[0]["dir"], 900), pj):
                ok = r["verdict"] == "counterexample"
                say("  apalache %-34s %-14s %6.1fs (%s)" % (r["obligation"], r["verdict"], r["seconds"],
                                                         "expected: IndInit is not vacuous" if ok else "UNEXPECTED"))
                st.setdefault("probes", []).append(dict(spec=r["spec"], obligation=r["obligation"], verdict=r["verdict"],
                                                        expected="counterexample", seconds=r["seconds"]))
                if not ok:
                    st["errors"].append(dict(spec=r["spec"], step=r["obligation"], detail="non-vacuity probe did not produce a witness state: " + r["verdict"]))

    # ---- thorough tier: TLC cross-check of every spec for every allowed fault set (within a global budget)
    if tier == "thorough":
        budget = float(os.environ.get("C20_THOROUGH_BUDGET_S", "5400"))
        per_cfg = float(os.environ.get("C20_THOROUGH_PER_CONFIG_S", "1200"))
        t0 = time.time()
        # cheapest configurations first (seconds measured on 16 cores on the pristine tree), so that the budget is
        # spent where runs can finish; runs that cannot finish within the per-configuration cap come last
        est = {"dbft": dict(good=4, dead=5, byz=8, both=10),
               "dbft_antiMEV": dict(good=8, dead=12, byz=52, both=100),
               "dbftCV3": dict(good=20, dead=40, byz=130, both=200),
               "dbftCentralizedCV": dict(good=160, dead=210, byz=2500, both=4000),
               "dbftMultipool": dict(good=900, dead=1500, byz=3000, both=5000)}

        def klass(fs):
            return "good" if not fs[0] and not fs[1] else "dead" if not fs[0] else "byz" if not fs[1] else "both"
        plan = sorted(((est.get(s["id"], {}).get(klass(fs), 999), i, s, fs)
                       for s in live for i, fs in enumerate(fault_sets("all"))), key=lambda x: (x[0], x[1]))
        for _, _, s, fs in plan:
            if True:
                key = (s["id"], cfg_name(fs))
                if key in tlc_done and tlc_done[key]["status"] != "incomplete":
                    continue
                left = budget - (time.time() - t0)
                if left < 30:
                    rr = dict(spec=s["id"], config=cfg_name(fs), RMFault=tla_set(fs[0]), RMDead=tla_set(fs[1]),
                              status="skipped", seconds=0, distinct_states=None, note="global TLC budget of the thorough tier exhausted")
                    st["tlc_runs"].append(rr)
                    continue
                rr = tlc_run(s, s["dir"], fs, NCPU, min(per_cfg, left))
                tlc_done[key] = rr
                st["tlc_runs"].append(rr)
                say("  tlc      %-34s %-14s %6.1fs %s distinct states" % (s["id"] + "/" + rr["config"], rr["status"], rr["seconds"], rr["distinct_states"]))
                handle_tlc_result(st, s, rr, known, None)

    # ---- bounded stand-ins: specs (or fault classes) without an inductive invariant
    for s in bounded_only:
        runs = [summ(r) for (sid, _), r in tlc_done.items() if sid == s["id"]]
        st["standins"].append(dict(spec=s["id"], reason="no inductive invariant: covered by TLC only, on the configurations listed (bounded, NOT proved)",
                                   tlc=runs))
    for s in live:
        if s.get("byzantine_bounded"):
            runs = [summ(r) for (sid, c), r in tlc_done.items() if sid == s["id"] and not c.startswith("Fnone")]
            st["standins"].append(dict(spec=s["id"], reason="fault sets with RMFault /= {} have no inductive invariant: covered by TLC only (thorough tier, within its time budget; runs that are not 'complete' establish nothing)",
                                       tlc=runs))
        for wit in s.get("witnesses", []):
            st["standins"].append(dict(spec=s["id"], reason="fault sets with RMFault /= {} are outside the inductive proof (%s): the property is FALSE there, see known findings" % wit["obligation"],
                                       tlc=[summ(r) for r in st["tlc_runs"] if r["spec"] == s["id"] and r.get("RMFault") != "{}"]))

    st["specs"] = [dict(spec=s["id"], file=os.path.join(REPO_MODELS, s["src"]), sha256=s.get("sha"),
                        same_as_pristine_tree=(not s.get("edited")) if s.get("sha") else None) for s in specs]
    return finish(tier, seed, st, results, t_start, known)


def summ(r):
    return {k: r.get(k) for k in ("config", "RMFault", "RMDead", "status", "distinct_states", "states_generated", "depth", "seconds")}


def tool_failure(st, s, step, cmd, text):
    """A tool crashed / rejected the spec at a step that is known to pass on the pristine tree."""
    if s.get("edited"):
        p = write_replay("%s_%s_tool_failure" % (s["id"], step),
                         replay_header(s, "tool failure at step '%s' (%s); this step passes on the unmodified tree, the spec file differs from it" % (step, cmd)),
                         text[-20000:])
        say("VIOLATION property=C20 replay=%s no-failing-input-found" % p)
        st["violations"].append(dict(spec=s["id"], obligation=str(step), replay=p, kind="tool-failure"))
    else:
        say("C20: engine error: step '%s' (%s) failed on an UNMODIFIED spec %s; output tail:\n%s" % (step, cmd, s["src"], text[-3000:]))
        st["errors"].append(dict(spec=s["id"], step=str(step), detail="tool failure on unmodified spec"))


def handle_tlc_result(st, s, r, known, ob, cti="", force_obligation=None):
    """Returns True iff r is an invariant violation (reported)."""
    if r["status"] == "violation":
        byz = r["RMFault"] != "{}"
        name = force_obligation or "%s/%s/%s" % (s["id"], "faulty" if byz else "nofault", r["violated"])
        report_violation(st, s, r, known, name, ob, "TLC found a reachable state violating %s" % r["violated"], cti)
        return True
    if r["status"] == "tool-error":
        tool_failure(st, s, "tlc:" + r["config"], r["cmd"], open(r["log"], errors="replace").read())
    return False


def report_violation(st, s, r, known, name, ob, what, cti=""):
    if any(v.get("obligation") == name for v in st["violations"]) or name in st["known_hits"]:
        return
    body = "---- TLC output (error trace) ----\n" + tlc_trace(open(r["log"], errors="replace").read())
    if cti:
        body += cti
    p = write_replay("%s_%s" % (name, r["config"]), replay_header(s, what, r, ob), body)
    if name in known:
        say("KNOWN-FINDING: property=C20 obligation=%s replay=%s %s" % (name, p, known[name]))
        st["known_hits"].append(name)
    else:
        say("VIOLATION property=C20 replay=%s" % p)
        st["violations"].append(dict(spec=s["id"], obligation=name, replay=p, kind="invariant", invariant=r["violated"],
                                     RMFault=r["RMFault"], RMDead=r["RMDead"]))


def finish(tier, seed, st, results, t_start, known):
    n_ob = len(results)
    n_proved = sum(1 for r in results if r["verdict"] == "proved")
    wall = time.time() - t_start
    proved_specs = sorted({r["spec"] for r in results})
    explanation = (
        "Per spec, a wrapper MC_<spec>.tla INSTANCEs the unmodified shipped module (copied from /repo on this run) with RM = {0,1,2,3}, "
        "MaxView = 1 as shipped and symbolic RMFault/RMDead constrained by the module's ASSUME; Apalache discharges init (Init => IndInv), "
        "step (IndInv /\\ state constraint /\\ Next => IndInv') and target (IndInv /\\ state constraint => stated invariants). "
        "'obligations' counts only these Apalache obligations. dbftCV3 is proved only for RMFault = {} (dead nodes symbolic); with a Byzantine node "
        "the shipped dbftCV3 model violates InvTwoBlocksAccepted (TLC trace re-validated on every run). dbftCentralizedCV has no inductive "
        "invariant and is covered by TLC only (bounded_standins). TLC runs with status 'incomplete'/'skipped' are NOT exhaustive and establish nothing.")
    ev = {
        "property_id": "C20",
        "tier": tier,
        "seed": seed,
        "level": "proof",
        "coverage": {
            "obligations": n_ob,
            "discharged": n_proved,
            "checker_cmd": "apalache-mc check --cinit=<ConstInit|ConstInitNoFault> --no-deadlock {--init=Init --inv=IndInv --length=0 | --init=IndInit --inv=IndInv --length=1 | --init=IndInit --inv=Target --length=0} MC_<spec>.tla   (apalache-mc 0.58, z3)",
            "trusted_base": [
                "Apalache 0.58 (TLA+ -> SMT translation, type checker) and z3",
                "TLC 2 (tla2tools 1.8.0) for bounded stand-ins, error traces and cross-checks",
                "the wrappers MC_*.tla: fixed RM/MaxView, ConstInit = the module's ASSUME, Target = the invariants named in the .launch files",
                "MC_dbftMultipool.tla: TypeGen (generator form of the type clause) is implied by clause P1 of IndInv (function extensionality)",
                "c20_driver.py (job scheduling, parsing of tool verdicts)",
            ],
            "samples": st["samples"],
            "specs_checked": st.get("specs", []),
            "specs_with_inductive_invariant": proved_specs,
            "bounded_standins": st["standins"],
            "tlc_runs": [{k: v for k, v in r.items() if k not in ("log",)} for r in st["tlc_runs"]],
            "known_finding_obligations": st["known_hits"],
            "undecided_induction": st["undecided_induction"],
            "vacuity_probes": st.get("probes", []),
            "violations_detail": st["violations"],
            "undecided": st["undecided"],
            "engine_errors": st["errors"],
            "explanation": explanation,
        },
        "assumptions": [
            "A-TLA-1: four validators RM = {0,1,2,3} (F = 1, M = 3) and MaxView = 1 exactly as in the shipped ___AllGoodModel.launch files (dbftMultipool: MaxUndeliveredMessages = 6); other sizes are not covered",
            "A-TLA-2: only states inside the shipped state constraint (MaxViewConstraint / ModelConstraint) are expanded, as TLC does with CONSTRAINT",
            "A-TLA-3: the temporal property Liveness of the .launch files is not part of C20 and is not checked",
            "A-TLA-4: soundness of Apalache's bounded-type reasoning: IndInv restricts views to 0..MaxView+1, which is itself proved inductive under the state constraint",
            "A-TLA-5: CHOOSE in dbftCentralizedCV is evaluated by TLC with its fixed deterministic choice",
        ],
        "wall_s": round(wall, 1),
        "violations": len(st["violations"]),
    }
    if st["known_hits"]:
        ev["coverage"]["note"] = "the property does NOT hold on this tree: the listed known-finding obligations fail (see known_findings.txt)"
    if n_ob == 0:
        # nothing attempted (every spec broken or filtered): fall back to the generic keys so the file stays schema-valid
        ev["level"] = "other"
    os.makedirs(os.path.dirname(EVIDENCE), exist_ok=True)
    with open(EVIDENCE, "w") as f:
        json.dump(ev, f, indent=1)
    say("property=C20 tier=%s obligations=%d discharged=%d known=%d violations=%d undecided=%d engine_errors=%d wall=%.1fs" % (
        tier, n_ob, n_proved, len(st["known_hits"]), len(st["violations"]), len(st["undecided"]) , len(st["errors"]), wall))
    if st["known_hits"]:
        say("NOTE property=C20 does NOT hold on this tree: known finding(s) %s still reproduce (reported, not counted as new violations)" % ", ".join(st["known_hits"]))
    if st["violations"]:
        return 1
    if st["undecided"] or st["errors"]:
        for u in st["undecided"]:
            say("C20: undecided: %s" % json.dumps(u))
        return 2
    return 0


if __name__ == "__main__":
    sys.exit(main())
