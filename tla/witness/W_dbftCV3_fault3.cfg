\* Replays the stored error trace (one Byzantine node, RMFault = {3}) against the current dbftCV3.tla.
SPECIFICATION WSpec
CONSTANTS
  RM = {0, 1, 2, 3}
  RMFault = {3}
  RMDead = {}
  MaxView = 1
CONSTRAINT MaxViewConstraint
INVARIANTS
  TypeOK
  InvTwoBlocksAccepted
  InvFaultNodesCount
