------------------------------ MODULE MC_dbft ------------------------------
(* Contract wrapper for the UNMODIFIED /repo/formal-models/dbft/dbft.tla     *)
(* (basic dBFT 2.0 model).  RM and MaxView are fixed as in the shipped       *)
(* dbft___AllGoodModel.launch; RMFault / RMDead stay symbolic and are        *)
(* constrained by ConstInit == the module's own ASSUME, so one Apalache run  *)
(* covers every fault set the ASSUME allows.                                 *)
EXTENDS Integers, FiniteSets

CONSTANTS
  \* @type: Set(Int);
  RMFault,
  \* @type: Set(Int);
  RMDead

RM == {0, 1, 2, 3}
MaxView == 1

VARIABLES
  \* @type: Int -> { type: Str, view: Int };
  rmState,
  \* @type: Set({ type: Str, rm: Int, view: Int });
  msgs

INSTANCE dbft

\* The ASSUME of dbft.tla, restricted to the constants left symbolic (the
\* clauses about RM and MaxView are closed facts: N = 4, 0 \in RM, MaxView = 1).
ConstInit ==
  /\ RMFault \in SUBSET RM
  /\ RMDead \in SUBSET RM
  /\ Cardinality(RMFault) <= F
  /\ Cardinality(RMDead) <= F
  /\ Cardinality(RMFault \cup RMDead) <= F

\* One step out of a state satisfying MaxViewConstraint raises a view by at most 1.
VB == MaxView + 1
StateTypes == {"initialized", "prepareSent", "commitSent", "cv", "blockAccepted", "bad", "dead"}
MsgTypes == {"PrepareRequest", "PrepareResponse", "Commit", "ChangeView"}

IndInv ==
  \* I1/I2: bounded version of TypeOK
  /\ rmState \in [RM -> [type: StateTypes, view: 0..VB]]
  /\ msgs \in SUBSET [type: MsgTypes, rm: RM, view: 0..VB]
  \* I3: stated invariant, at most F bad or dead nodes
  /\ InvFaultNodesCount
  \* I4/I5: only nodes that are permitted to may be bad / dead
  /\ \A r \in RM: rmState[r].type = "bad" => r \in RMFault
  /\ \A r \in RM: rmState[r].type = "dead" => r \in RMDead
  \* I6 (commit lock): a Commit of a never-faulty node was sent in the view the
  \*    node is still in, and the node is committed / accepted / died afterwards
  /\ \A m \in msgs: (m.type = "Commit" /\ m.rm \notin RMFault) =>
        /\ rmState[m.rm].view = m.view
        /\ rmState[m.rm].type \in {"commitSent", "blockAccepted", "dead"}
  \* I7: a block is accepted only in a view that has M Commit messages
  /\ \A r \in RM: rmState[r].type = "blockAccepted" =>
        Cardinality({m \in msgs: m.type = "Commit" /\ m.view = rmState[r].view}) >= M

\* Obligation 2 starts in an arbitrary IndInv state inside the shipped state constraint.
IndInit == IndInv /\ MaxViewConstraint

\* The spec's own stated invariants (those listed in the .launch file).
Target == TypeOK /\ InvTwoBlocksAccepted /\ InvFaultNodesCount

\* Non-vacuity probe, expected to be VIOLATED: Apalache must exhibit a state of IndInit
\* in which two nodes have accepted a block (so IndInit is not empty / trivial).
VacuityProbe == Cardinality({r \in RM: rmState[r].type = "blockAccepted"}) < 2
=============================================================================
