----------------------------- MODULE MC_dbftCV3 -----------------------------
(* Contract wrapper for the UNMODIFIED                                        *)
(* /repo/formal-models/dbft2.1_threeStagedCV/dbftCV3.tla (dBFT 2.1, three     *)
(* staged change view).  In this model a committed node may still change its  *)
(* view, so the commit lock of dBFT 2.0 is replaced by per-view counting       *)
(* arguments (see README.md in this directory).                               *)
EXTENDS Integers, FiniteSets

CONSTANTS
  \* @type: Set(Int);
  RMFault,
  \* @type: Set(Int);
  RMDead

RM == {0, 1, 2, 3}
MaxView == 1

VARIABLES
  \* @type: Int -> { type: Str, view: Int };
  rmState,
  \* @type: Set({ type: Str, rm: Int, view: Int });
  msgs

INSTANCE dbftCV3

\* The ASSUME of dbftCV3.tla for the constants left symbolic.
ConstInit ==
  /\ RMFault \in SUBSET RM
  /\ RMDead \in SUBSET RM
  /\ Cardinality(RMFault) <= F
  /\ Cardinality(RMDead) <= F
  /\ Cardinality(RMFault \cup RMDead) <= F

\* The sub-case of the ASSUME without Byzantine nodes (dead nodes still symbolic).
ConstInitNoFault == ConstInit /\ RMFault = {}

VB == MaxView + 1
StateTypes == {"initialized", "prepareSent", "commitSent", "blockAccepted", "cv1", "cv2", "cv3", "bad", "dead"}
MsgTypes == {"PrepareRequest", "PrepareResponse", "Commit", "ChangeView1", "ChangeView2", "ChangeView3"}
Views == 0..MaxView

\* @type: (Str, Int) => Set({ type: Str, rm: Int, view: Int });
Of(t, v) == {m \in msgs : m.type = t /\ m.view = v}
\* @type: (Int) => Set({ type: Str, rm: Int, view: Int });
PrepOf(v) == {m \in msgs : (m.type = "PrepareRequest" \/ m.type = "PrepareResponse") /\ m.view = v}
\* Commit messages of view v whose sender has not sent ChangeView2 in view v
\* @type: (Int) => Set({ type: Str, rm: Int, view: Int });
PlainCommits(v) == {m \in Of("Commit", v) : \A c \in Of("ChangeView2", v) : c.rm /= m.rm}
\* view v can be left: M change view messages of one stage were sent in it
Leavable(v) == \/ Cardinality(Of("ChangeView1", v)) >= M
               \/ Cardinality(Of("ChangeView2", v)) >= M
               \/ Cardinality(Of("ChangeView3", v)) >= M

IndInv ==
  \* T1/T2: bounded TypeOK (messages are only sent in views <= MaxView)
  /\ rmState \in [RM -> [type: StateTypes, view: 0..VB]]
  /\ msgs \in SUBSET [type: MsgTypes, rm: RM, view: Views]
  \* T3..T5: fault bookkeeping
  /\ InvFaultNodesCount
  /\ \A r \in RM: rmState[r].type = "bad" => r \in RMFault
  /\ \A r \in RM: rmState[r].type = "dead" => r \in RMDead
  \* S1: PrepareRequest comes from the primary of its view, PrepareResponse from a backup
  /\ \A m \in msgs: m.rm \notin RMFault =>
        /\ m.type = "PrepareRequest" => m.rm = m.view % 4
        /\ m.type = "PrepareResponse" => m.rm /= m.view % 4
  \* S2: a live node never sent a message in a view above its own (a node that
  \*     fetched a block took over the view of the block, so it is excluded)
  /\ \A m \in msgs: (m.rm \notin RMFault /\ rmState[m.rm].type \notin {"blockAccepted", "dead"})
        => m.view <= rmState[m.rm].view
  \* S3: stage discipline inside the current view of the sender
  /\ \A m \in msgs: (/\ m.rm \notin RMFault
                     /\ rmState[m.rm].type \notin {"blockAccepted", "dead"}
                     /\ m.view = rmState[m.rm].view) =>
        /\ rmState[m.rm].type /= "initialized"
        /\ m.type = "ChangeView2" => rmState[m.rm].type \notin {"prepareSent", "cv1"}
        /\ m.type = "Commit" => rmState[m.rm].type \notin {"prepareSent", "cv1", "cv2"}
  \* S4: nobody both prepared and asked for ChangeView1 in the same view
  /\ \A m1 \in msgs: \A m2 \in msgs:
        (m1.rm = m2.rm /\ m1.view = m2.view /\ m1.rm \notin RMFault /\ m1.type = "ChangeView1")
          => (m2.type /= "PrepareRequest" /\ m2.type /= "PrepareResponse")
  \* C1: a Commit in view v needs M preparations of view v
  /\ \A v \in Views: Of("Commit", v) /= {} => Cardinality(PrepOf(v)) >= M
  \* C2: once ChangeView3 was sent in view v, at most F nodes committed in v
  /\ \A v \in Views: Of("ChangeView3", v) /= {} => Cardinality(Of("Commit", v)) <= F
  \* C3: a node that committed after its ChangeView2 saw F+1 commits of nodes that never sent ChangeView2
  /\ \A v \in Views:
        (\E m \in Of("Commit", v): \E c \in Of("ChangeView2", v): c.rm = m.rm)
          => Cardinality(PlainCommits(v)) >= F + 1
  \* L1: a view that some node has left (or a later view has a message) was leavable
  /\ \A v \in Views: ((\E r \in RM: rmState[r].view > v) \/ (\E m \in msgs: m.view > v)) => Leavable(v)
  \* A1: a block is accepted only in a view that has M Commit messages
  /\ \A r \in RM: rmState[r].type = "blockAccepted" =>
        Cardinality(Of("Commit", rmState[r].view)) >= M

IndInit == IndInv /\ MaxViewConstraint
Target == TypeOK /\ InvTwoBlocksAccepted /\ InvFaultNodesCount

\* BEGIN-SPLIT  The step obligation is discharged per group of actions (in parallel):
\* IndInit /\ StepX => IndInv' for every group below.  The groups together list every
\* disjunct of the shipped Next; check_c20.sh compares the action names between
\* BEGIN-SPLIT and END-SPLIT with the ones in the shipped definition of Next on every
\* run and falls back to the monolithic obligation (--next=Next) if they differ.
StepPrepare == \E r \in RM: RMSendPrepareRequest(r) \/ RMSendPrepareResponse(r)
StepCommit == \E r \in RM: RMSendCommit(r)
StepAccept == \E r \in RM: RMAcceptBlock(r) \/ RMFetchBlock(r)
StepCV12 == \E r \in RM: RMSendChangeView1(r) \/ RMSendChangeView2(r)
StepCV3 == \E r \in RM: RMSendChangeView3(r)
StepReceiveCV == \E r \in RM: RMReceiveChangeView(r)
StepFaults == \/ Terminating
              \/ \E r \in RM: RMBeBad(r) \/ RMDie(r)
                     \/ RMFaultySendCV1(r) \/ RMFaultySendCV2(r) \/ RMFaultySendCV3(r) \/ RMFaultyDoCV(r)
                     \/ RMFaultySendCommit(r) \/ RMFaultySendPReq(r) \/ RMFaultySendPResp(r)
\* END-SPLIT

\* Non-vacuity probe, expected to be VIOLATED: Apalache must exhibit a state of IndInit
\* in which two nodes have accepted a block (so IndInit is not empty / trivial).
VacuityProbe == Cardinality({r \in RM: rmState[r].type = "blockAccepted"}) < 2
=============================================================================
