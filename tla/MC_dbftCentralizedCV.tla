------------------------ MODULE MC_dbftCentralizedCV ------------------------
(* Contract wrapper for the UNMODIFIED                                        *)
(* /repo/formal-models/dbft2.1_centralizedCV/dbftCentralizedCV.tla (dBFT 2.1, *)
(* view changes driven by the next leader).  The inductive invariant below    *)
(* covers the case WITHOUT Byzantine nodes (RMFault = {}, RMDead symbolic);   *)
(* see README.md for why the Byzantine case is left to TLC.                   *)
EXTENDS Integers, FiniteSets

CONSTANTS
  \* @type: Set(Int);
  RMFault,
  \* @type: Set(Int);
  RMDead

RM == {0, 1, 2, 3}
MaxView == 1

VARIABLES
  \* @type: Int -> { type: Str, view: Int };
  rmState,
  \* @type: Set({ type: Str, rm: Int, view: Int, targetView: Int, sourceView: Int });
  msgs,
  \* @type: Int -> Int;
  blockAccepted

INSTANCE dbftCentralizedCV

\* The ASSUME of dbftCentralizedCV.tla for the constants left symbolic.
ConstInit ==
  /\ RMFault \in SUBSET RM
  /\ RMDead \in SUBSET RM
  /\ Cardinality(RMFault) <= F
  /\ Cardinality(RMDead) <= F
  /\ Cardinality(RMFault \cup RMDead) <= F

\* The sub-case of the ASSUME without Byzantine nodes (dead nodes still symbolic).
ConstInitNoFault == ConstInit /\ RMFault = {}

VB == MaxView + 1
Views == 0..MaxView
StateTypes == {"initialized", "prepareSent", "commitSent", "blockAccepted", "cv1", "cv2", "bad", "dead"}

\* @type: (Str, Int, Int, Int, Int) => { type: Str, rm: Int, view: Int, targetView: Int, sourceView: Int };
Msg(t, r, v, tv, sv) == [type |-> t, rm |-> r, view |-> v, targetView |-> tv, sourceView |-> sv]

\* The shapes of the messages honest nodes can send within one step of a state
\* that satisfies MaxViewConstraint (views <= MaxView, target views <= MaxView+1).
MsgSpace ==
  {m \in {Msg("PrepareRequest", v % 4, v, 0, s) : v \in 0..VB, s \in 0..VB} : m.sourceView <= m.view}
  \cup {m \in {Msg("PrepareResponse", r, v, 0, s) : r \in RM, v \in Views, s \in Views} :
          m.sourceView <= m.view /\ m.rm /= m.view % 4}
  \cup {m \in {Msg("Commit", r, v, 0, s) : r \in RM, v \in Views, s \in Views} : m.sourceView <= m.view}
  \cup {m \in {Msg("ChangeView1", r, v, tv, v) : r \in RM, v \in Views, tv \in 1..(VB + 1)} : m.targetView > m.view}
  \cup {m \in {Msg("ChangeView2", r, v, tv, s) : r \in RM, v \in Views, tv \in 1..(VB + 1), s \in Views} :
          m.targetView > m.view /\ m.sourceView <= m.view}
  \cup {m \in {Msg("DoChangeView1", tv % 4, v, tv, tv) : v \in Views, tv \in 1..VB} : m.targetView > m.view}
  \cup {m \in {Msg("DoChangeView2", tv % 4, v, tv, s) : v \in Views, tv \in 1..VB, s \in Views} :
          m.targetView > m.view /\ m.sourceView <= m.view}

Live(r) == rmState[r].type \notin {"blockAccepted", "dead", "bad"}
\* @type: ({ type: Str, rm: Int, view: Int, targetView: Int, sourceView: Int }) => Bool;
IsPrep(m) == m.type = "PrepareRequest" \/ m.type = "PrepareResponse"
\* @type: ({ type: Str, rm: Int, view: Int, targetView: Int, sourceView: Int }) => Bool;
IsDoCV(m) == m.type = "DoChangeView1" \/ m.type = "DoChangeView2"
\* @type: (Int) => Set({ type: Str, rm: Int, view: Int, targetView: Int, sourceView: Int });
PrepOf(v) == {m \in msgs : IsPrep(m) /\ m.view = v}
\* @type: (Int) => Set({ type: Str, rm: Int, view: Int, targetView: Int, sourceView: Int });
CommitsOf(v) == {m \in msgs : m.type = "Commit" /\ m.view = v}
PReqAt(v) == \E p \in msgs: p.type = "PrepareRequest" /\ p.view = v

\* IndInv == IndInv1 /\ IndInv2; the two halves are separate operators only so that the step
\* obligation of the most expensive actions can be checked by two Apalache jobs in parallel
\* (IndInit /\ StepX => IndInv1' and IndInit /\ StepX => IndInv2', both from the full IndInit).
IndInv1 ==
  \* T1..T3: bounded TypeOK with message shapes
  /\ rmState \in [RM -> [type: StateTypes, view: 0..VB]]
  /\ msgs \in SUBSET MsgSpace
  /\ blockAccepted \in [RM -> 0..VB]
  \* T4..T6: fault bookkeeping
  /\ InvFaultNodesCount
  /\ \A r \in RM: rmState[r].type = "bad" => r \in RMFault
  /\ \A r \in RM: rmState[r].type = "dead" => r \in RMDead
  \* S2: a live node never sent a message in a view above its own and has moved to the target of its DoChangeView
  /\ \A m \in msgs: Live(m.rm) =>
        /\ m.view <= rmState[m.rm].view
        /\ IsDoCV(m) => m.targetView <= rmState[m.rm].view
  \* S3: an "initialized" node has not sent anything in its current view
  /\ \A m \in msgs: (Live(m.rm) /\ m.view = rmState[m.rm].view) => rmState[m.rm].type /= "initialized"
  \* E1: a node that entered a later view as "initialized" is not its primary (the primary enters via DoChangeView as "prepareSent")
  /\ \A r \in RM: (rmState[r].type = "initialized" /\ rmState[r].view >= 1) => r /= rmState[r].view % 4
  \* K1..K3: the node state is backed by the node's own messages / the proposal of its view
  /\ \A r \in RM: rmState[r].type = "cv1" =>
        \E m \in msgs: m.type = "ChangeView1" /\ m.rm = r /\ m.view = rmState[r].view

IndInv2 ==
  \* K2, K3 (see K1 above)
  /\ \A r \in RM: rmState[r].type = "cv2" =>
        \E m \in msgs: m.type = "ChangeView2" /\ m.rm = r /\ m.view = rmState[r].view
  /\ \A r \in RM: rmState[r].type \in {"prepareSent", "commitSent"} => PReqAt(rmState[r].view)
  \* V1: ChangeView2 is only sent in a view that has a proposal
  /\ \A m \in msgs: m.type = "ChangeView2" => PReqAt(m.view)
  \* Q2: PrepareResponse / Commit carry the source view of a proposal of their view
  /\ \A m \in msgs: (m.type = "PrepareResponse" \/ m.type = "Commit") =>
        \E p \in msgs: p.type = "PrepareRequest" /\ p.view = m.view /\ p.sourceView = m.sourceView
  \* U1: one proposal per view (within the bound)
  /\ \A p1 \in msgs: \A p2 \in msgs:
        (p1.type = "PrepareRequest" /\ p2.type = "PrepareRequest" /\ p1.view = p2.view /\ p1.view <= MaxView)
          => p1.sourceView = p2.sourceView
  \* Q1: only the primary may have both prepared and asked for ChangeView1 in one view
  \*     (a backup sends ChangeView1 instead of preparing, or from "cv2" when at most F nodes prepared)
  /\ \A m1 \in msgs: \A m2 \in msgs:
        (m1.type = "ChangeView1" /\ IsPrep(m2) /\ m1.rm = m2.rm /\ m1.view = m2.view) => m1.rm = m1.view % 4
  \* C1: a Commit in view v needs M preparations of view v
  /\ \A v \in Views: CommitsOf(v) /= {} => Cardinality(PrepOf(v)) >= M
  \* D1: a NEW proposal in a later view (sourceView = view) needs M ChangeView1 of an earlier view targeting it
  /\ \A p \in msgs: (p.type = "PrepareRequest" /\ p.view >= 1 /\ p.view <= MaxView /\ p.sourceView = p.view) =>
        \E w \in Views: /\ w < p.view
                        /\ Cardinality({m \in msgs: m.type = "ChangeView1" /\ m.view = w /\ m.targetView = p.view}) >= M
  \* A1: an accepted block is the proposal of a view (within the bound) that has M Commit messages
  /\ \A r \in RM: rmState[r].type = "blockAccepted" =>
        /\ rmState[r].view <= MaxView
        /\ Cardinality(CommitsOf(rmState[r].view)) >= M
        /\ \E p \in msgs: p.type = "PrepareRequest" /\ p.view = rmState[r].view /\ p.sourceView = blockAccepted[r]

IndInv == IndInv1 /\ IndInv2

IndInit == IndInv /\ MaxViewConstraint
Target == TypeOK /\ InvTwoBlocksAcceptedAdvanced /\ InvFaultNodesCount

\* BEGIN-SPLIT  The step obligation is discharged per group of actions (in parallel):
\* IndInit /\ StepX => IndInv' for every group below.  The groups together list every
\* disjunct of the shipped Next; check_c20.sh compares the action names between
\* BEGIN-SPLIT and END-SPLIT with the ones in the shipped definition of Next on every
\* run and falls back to the monolithic obligation (--next=Next) if they differ.
StepPrepareRequest == \E r \in RM: RMSendPrepareRequest(r)
StepPrepareResponse == \E r \in RM: RMSendPrepareResponse(r)
StepCommit == \E r \in RM: RMSendCommit(r)
StepAcceptBlock == \E r \in RM: RMAcceptBlock(r)
StepFetchBlock == \E r \in RM: RMFetchBlock(r)
StepCV1 == \E r \in RM: RMSendChangeView1(r)
StepCV1Again == \E r \in RM: RMSendChangeView1FromCV1(r)
StepCV2 == \E r \in RM: RMSendChangeView2(r)
StepCV2Again == \E r \in RM: RMSendChangeView2FromCV2(r)
StepDoCV1 == \E r \in RM: RMSendDoCV1ByLeader(r)
StepDoCV2 == \E r \in RM: RMSendDoCV2ByLeader(r)
StepReceiveDoCV1 == \E r \in RM: RMReceiveDoCV1FromLeader(r)
StepReceiveDoCV2 == \E r \in RM: RMReceiveDoCV2FromLeader(r)
StepFaults == \/ Terminating
              \/ \E r \in RM: RMBeBad(r) \/ RMDie(r)
                     \/ RMFaultySendCV1(r) \/ RMFaultySendCV2(r) \/ RMFaultyDoCV(r)
                     \/ RMFaultySendCommit(r) \/ RMFaultySendPReq(r) \/ RMFaultySendPResp(r)
\* END-SPLIT

\* Non-vacuity probe, expected to be VIOLATED: Apalache must exhibit a state of IndInit
\* in which two nodes have accepted a block (so IndInit is not empty / trivial).
VacuityProbe == Cardinality({r \in RM: rmState[r].type = "blockAccepted"}) < 2
=============================================================================
