#!/bin/bash
# harmless_par.sh <glob prefix> [jobs]: like harmless.sh for the patches selftest/harmless/<prefix>*.diff, N patches at a time.
cd /verif
pre=$1; jobs=${2:-4}
one() {
  h=$1; wt=$2
  git -C $wt apply $(realpath $h) || { echo "does not apply: $h"; git -C /repo worktree remove --force $wt; return; }
  (cd $wt && PATH=/opt/veriftools/go1.26.8/bin:$PATH GOFLAGS=-mod=mod GOPROXY=off GOSUMDB=off GOTOOLCHAIN=local go build ./... ) || echo "BUILD FAILS: $h"
  list=""; [ -f "${h%.diff}.checks" ] && list=$(cat "${h%.diff}.checks")
  for p in ${list:-C11}; do
    ev=$(mktemp -d /tmp/govc-harmless-ev-XXXXXX)
    ${GOVC:-bin/govc} check -prop $p -tier quick -repo $wt -verif $ev -known /verif/known_findings.txt > $ev/out.txt 2>&1; c=$?
    n=$(grep -c "^VIOLATION" $ev/out.txt)
    echo "$(basename $h) $p exit=$c violations=$n $(grep -E '^UNDECIDED' $ev/out.txt | head -2 | cut -c1-200)"
    [ $n -gt 0 ] && grep "^VIOLATION" $ev/out.txt | cut -c1-220
    rm -rf $ev
  done
  git -C /repo worktree remove --force $wt
}
for h in selftest/harmless/${pre}*.diff; do
  while [ $(jobs -r | wc -l) -ge $jobs ]; do sleep 3; done
  wt=$(mktemp -d /tmp/govc-harmless-XXXXXX); rmdir $wt
  git -C /repo worktree add -q --detach $wt HEAD || exit 2   # worktrees are created one at a time (git locks)
  one $h $wt &
done
wait
