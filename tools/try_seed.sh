#!/bin/bash
# try_seed.sh <dir with patch.diff> <tag> <property...>: apply the patch to a scratch worktree of /repo HEAD (outside
# /repo and /verif), run the quick checks of the given properties against that copy, print their verdict lines, remove it.
src=$(realpath $1); tag=$2; shift 2
cd /verif
wt=/tmp/tryseed_$tag
git -C /repo worktree remove --force $wt 2>/dev/null
git -C /repo worktree add -q --detach $wt HEAD || exit 3
git -C $wt apply $src/patch.diff || { echo "patch does not apply"; git -C /repo worktree remove --force $wt; exit 3; }
for p in "$@"; do
  ev=$(mktemp -d /tmp/tryseed-ev-XXXXXX)
  if [ "$p" = "C20" ]; then
    C20_MODELS_DIR=$wt/formal-models C20_EVIDENCE=$ev/C20.json C20_REPLAYS=$ev/replays tla/check_c20.sh quick >$ev/out.txt 2>&1; rc=$?
  else
    ${GOVC:-bin/govc} check -prop $p -tier quick -repo $wt -verif $ev -known /verif/known_findings.txt >$ev/out.txt 2>&1; rc=$?
  fi
  echo "== $tag vs $p exit=$rc"
  grep -E "^VIOLATION|^UNDECIDED|^property=|engine error" $ev/out.txt | cut -c1-300
  grep -E "^(sat|unknown|timeout|FAILED)" $ev/out.txt | head -12 | cut -c1-220
  rm -rf $ev
done
git -C /repo worktree remove --force $wt
