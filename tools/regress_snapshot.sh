#!/bin/bash
# regress_snapshot.sh: every govc check (quick) against a snapshot of /repo HEAD ($VP_RUN_REPO), for use with `vp run --with-repo`
cd "$(dirname "$0")/.."
[ -x bin/govc ] || ./setup.sh >/dev/null 2>&1
repo=${VP_RUN_REPO:-/repo}
for p in C01 C02 C03 C04 C05 C06 C07 C10 C11 C12 C13 C14 C15 C16 C17 C18 C19; do
  ev=$(mktemp -d)
  bin/govc check -prop $p -tier quick -repo $repo -verif $ev -known $PWD/known_findings.txt > $ev/out.txt 2>&1; rc=$?
  echo "$p exit=$rc $(grep '^property=' $ev/out.txt)"
  grep -E "^VIOLATION|^UNDECIDED" $ev/out.txt | cut -c1-220
  rm -rf $ev
done
