#!/bin/bash
# run_seed.sh <seed dir> <property...>: apply the seeded patch to /repo, run the quick checks, undo it.
d=$(realpath $1); shift
cd /verif
git -C /repo apply $d/patch.diff || { echo "patch does not apply"; exit 3; }
for p in "$@"; do ./check $p quick 2>&1 | grep -E "VIOLATION|KNOWN|UNDECIDED|^property=" | cut -c1-260; done
git -C /repo apply -R $d/patch.diff || echo "WARNING: could not revert patch"
