#!/bin/bash
# review_mutants.sh: every mutation under selftest/review_mutants is applied to a scratch worktree outside /repo and
# /verif; the quick check of the property named in the file name must report a VIOLATION.
cd /verif
fail=0
for d in selftest/review_mutants/*.diff; do
  b=$(basename $d .diff); p=${b##*__}
  wt=$(mktemp -d /tmp/govc-review-XXXXXX); rmdir $wt
  git -C /repo worktree add -q --detach $wt HEAD || exit 2
  if git -C $wt apply $(realpath $d); then
    ev=$(mktemp -d /tmp/govc-review-ev-XXXXXX)
    bin/govc check -prop $p -tier quick -repo $wt -verif $ev -known /verif/known_findings.txt >$ev/out.txt 2>&1; rc=$?
    if [ $rc -eq 1 ] && grep -q "^VIOLATION property=$p " $ev/out.txt; then echo "KILLED $b"; else echo "SURVIVED $b (exit $rc)"; fail=1; fi
    rm -rf $ev
  else
    echo "SKIP $b: does not apply"
  fi
  git -C /repo worktree remove --force $wt
done
exit $fail
