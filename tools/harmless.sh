#!/bin/bash
# harmless.sh: apply each behaviour-preserving edit under selftest/harmless to a scratch worktree and run the quick
# checks that look at the edited code (listed in <name>.checks, or env CHECKS for all); none may report a VIOLATION.
cd /verif
rc=0
for h in selftest/harmless/*.diff; do
  wt=$(mktemp -d /tmp/govc-harmless-XXXXXX); rmdir $wt
  git -C /repo worktree add -q --detach $wt HEAD || exit 2
  git -C $wt apply $(realpath $h) || { echo "does not apply: $h"; git -C /repo worktree remove --force $wt; continue; }
  (cd $wt && PATH=/opt/veriftools/go1.26.8/bin:$PATH GOFLAGS=-mod=mod GOPROXY=off GOSUMDB=off GOTOOLCHAIN=local go build ./... ) || echo "BUILD FAILS: $h"
  list=${CHECKS:-}
  [ -z "$list" ] && [ -f "${h%.diff}.checks" ] && list=$(cat "${h%.diff}.checks")
  for p in ${list:-C06 C11 C10 C02 C15}; do
    ev=$(mktemp -d /tmp/govc-harmless-ev-XXXXXX)
    bin/govc check -prop $p -tier quick -repo $wt -verif $ev -known /verif/known_findings.txt > $ev/out.txt 2>&1; c=$?
    n=$(grep -c "^VIOLATION" $ev/out.txt)
    echo "$(basename $h) $p exit=$c violations=$n $(grep -E '^UNDECIDED' $ev/out.txt | head -2 | cut -c1-150)"
    [ $n -gt 0 ] && { rc=1; grep "^VIOLATION" $ev/out.txt | cut -c1-200; }
    rm -rf $ev
  done
  git -C /repo worktree remove --force $wt
done
exit $rc
