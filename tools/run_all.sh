#!/bin/bash
# run every claimed check (quick) on the current tree, validate evidence files
cd /verif
[ -z "$(git -C /repo status --short)" ] || echo "WARNING: /repo working tree is not clean"
for p in $(python3 -c "import json;print(' '.join(c['property_id'] for c in json.load(open('MANIFEST.json'))['checks']))"); do
  out=$(./check $p ${1:-quick} 2>&1); rc=$?
  echo "$p exit=$rc $(echo "$out" | tail -1)"
  echo "$out" | grep -E "^VIOLATION|^UNDECIDED" | cut -c1-200
  python3-vt -c "
import json,jsonschema
e=json.load(open('/verif/evidence/$p.json'))
jsonschema.validate(e,json.load(open('/root/.vp/EVIDENCE.schema.json')))
c=e['coverage']
assert e['level']!='proof' or c.get('discharged')==c.get('obligations'), 'discharged != obligations'
" || echo "  EVIDENCE INVALID for $p"
done
