#!/bin/bash
# known_demos.sh <property>: run the demonstrations of the known findings of a property against the real code
# (injected with go test -overlay, nothing is written into /repo) and print what they report.
p=$1
case "$p" in
  C01|C02|C04) f=/verif/replays_known/C02_C04_early_payload_hypotheses_test.go.txt; run=TestHypothesis ;;
  C11) f=/verif/replays_known/C11_redelivered_changeview_test.go.txt; run=TestProbeRedeliveredCV ;;
  C19) f=/verif/replays_known/C19_recovery_precommits_dropped_test.go.txt; run=TestKnownC19; pkg=./internal/consensus; dst=/repo/internal/consensus ;;
  *) exit 0 ;;
esac
pkg=${pkg:-.}; dst=${dst:-/repo}
d=$(mktemp -d /tmp/govc-demo-XXXXXX)
cp $f $d/zz_known_demo_test.go
printf '{"Replace":{"%s/zz_known_demo_test.go":"%s/zz_known_demo_test.go"}}' $dst $d > $d/ov.json
(cd /repo && PATH=/opt/veriftools/go1.26.8/bin:$PATH GOFLAGS=-mod=mod GOPROXY=off GOSUMDB=off GOTOOLCHAIN=local go test -overlay $d/ov.json -vet=off -count=1 -timeout 120s -run "$run" -v $pkg 2>&1 | grep -E "DEFECT|NOT REPRODUCED|view|^(ok|FAIL|---)" | sed 's/^ *//' | cut -c1-220 | head -40)
rm -rf $d
