#!/bin/bash
# known_demos.sh <property>: run the demonstrations of the known findings of a property against the real code
# (injected with go test -overlay, nothing is written into /repo) and print what they report.
p=$1
case "$p" in
  C01|C02|C04) f=/verif/replays_known/C02_C04_early_payload_hypotheses_test.go.txt; run=TestHypothesis ;;
  C11) f=/verif/replays_known/C11_redelivered_changeview_test.go.txt; run=TestProbeRedeliveredCV ;;
  C19) f=/verif/replays_known/C19_known_demos_test.go.txt; run=TestKnownC19; pkg=./internal/consensus; dst=/repo/internal/consensus ;;
  *) exit 0 ;;
esac
pkg=${pkg:-.}; dst=${dst:-/repo}
d=$(mktemp -d /tmp/govc-demo-XXXXXX)
cp $f $d/zz_known_demo_test.go
printf '{"Replace":{"%s/zz_known_demo_test.go":"%s/zz_known_demo_test.go"}}' $dst $d > $d/ov.json
(cd /repo && PATH=/opt/veriftools/go1.26.8/bin:$PATH GOFLAGS=-mod=mod GOPROXY=off GOSUMDB=off GOTOOLCHAIN=local go test -overlay $d/ov.json -vet=off -count=1 -timeout 120s -run "$run" -v $pkg 2>&1 | grep -E "DEFECT|NOT REPRODUCED|view|^(ok|FAIL|---)" | sed 's/^ *//' | cut -c1-220 | head -40)
rm -rf $d

if [ "$p" = "C19" ]; then
  # A-GOB across processes: the same payload hashed in two processes with different encoding histories
  for o in plain other; do
    d=$(mktemp -d /tmp/govc-demo-XXXXXX)
    cp /verif/replays_known/C19_gob_type_ids_test.go.txt $d/zz_known_demo_test.go
    printf '{"Replace":{"/repo/internal/consensus/zz_known_demo_test.go":"%s/zz_known_demo_test.go"}}' $d > $d/ov.json
    (cd /repo && GOVC_GOB_ORDER=$o PATH=/opt/veriftools/go1.26.8/bin:$PATH GOFLAGS=-mod=mod GOPROXY=off GOSUMDB=off GOTOOLCHAIN=local go test -overlay $d/ov.json -vet=off -count=1 -timeout 120s -run TestKnownC19GobTypeIDs -v ./internal/consensus 2>&1 | grep -o "GOB-ORDER.*")
    rm -rf $d
  done
fi
