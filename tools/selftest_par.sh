#!/bin/bash
# selftest_par.sh [jobs] [seed glob]: the must-fail corpus, N seeds at a time (worktrees are created one at a time).
cd /verif
jobs=${1:-4}; glob=${2:-*}
one() {
  d=$1; wt=$2; props=$3
  if git -C $wt apply $(realpath $d)/patch.diff 2>/dev/null; then
    for p in $props; do
      ev=$(mktemp -d /tmp/govc-selftest-ev-XXXXXX)
      if [ "$p" = "C20" ]; then
        C20_MODELS_DIR=$wt/formal-models C20_EVIDENCE=$ev/C20.json C20_REPLAYS=$ev/replays tla/check_c20.sh quick >$ev/out.txt 2>&1; rc=$?
      else
        bin/govc check -prop $p -tier quick -repo $wt -verif $ev -known /verif/known_findings.txt >$ev/out.txt 2>&1; rc=$?
      fi
      if [ $rc -eq 1 ] && grep -q "^VIOLATION property=$p " $ev/out.txt; then echo "KILLED $(basename $d) by $p"; else echo "SURVIVED $(basename $d) vs $p (exit $rc) $(grep -E '^UNDECIDED' $ev/out.txt | head -1 | cut -c1-160)"; fi
      rm -rf $ev
    done
  else
    echo "SKIP $(basename $d): patch does not apply to the current tree"
  fi
  git -C /repo worktree remove --force $wt
}
for d in seeded/$glob/; do
  props=$(python3 -c "import json;m=json.load(open('$d/meta.json'));print(' '.join(m.get('detected_by_checks',[])))")
  [ -z "$props" ] && continue
  while [ $(jobs -r | wc -l) -ge $jobs ]; do sleep 3; done
  wt=$(mktemp -d /tmp/govc-selftest-XXXXXX); rmdir $wt
  git -C /repo worktree add -q --detach $wt HEAD || { echo "cannot create worktree"; exit 2; }
  one $d $wt "$props" &
done
wait
