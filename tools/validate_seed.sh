#!/bin/bash
# validate_seed.sh <id> <dir with patch.diff + demo_test.go> [pkgdir relative to repo root, default .]
# Confirms in a scratch worktree: suite passes with the patch, demo fails with it, demo passes without it.
set -u
id=$1; src=$2; pkg=${3:-.}
export PATH=/opt/veriftools/go1.26.8/bin:$PATH GOFLAGS=-mod=mod GOPROXY=off GOSUMDB=off GOTOOLCHAIN=local
wt=/tmp/seedcheck_$id
git -C /repo worktree remove --force $wt 2>/dev/null
git -C /repo worktree add -q --detach $wt HEAD || exit 3
trap "git -C /repo worktree remove --force $wt" EXIT
cd $wt
git apply $src/patch.diff || { echo "RESULT $id patch-does-not-apply"; exit 1; }
go build ./... || { echo "RESULT $id does-not-compile"; exit 1; }
go test -count=1 -vet=off ./... > /tmp/seed_$id.suite.log 2>&1; s1=$?
cp $src/demo_test.go $wt/$pkg/zz_seed_demo_test.go
go test -count=1 -vet=off -run "${DEMO_RUN:-Test}" ./$pkg > /tmp/seed_$id.demo_with.log 2>&1; s2=$?
git apply -R $src/patch.diff
go test -count=1 -vet=off -run "${DEMO_RUN:-Test}" ./$pkg > /tmp/seed_$id.demo_without.log 2>&1; s3=$?
echo "RESULT $id suite_with_patch=$s1 demo_with_patch=$s2 demo_without_patch=$s3 (want 0, non-zero, 0)"
