#!/bin/bash
# selftest.sh [property]: must-fail corpus.  Every seeded change under /verif/seeded (for the given property, or all)
# is applied to a scratch worktree OUTSIDE /repo and /verif, the quick check of the property that is recorded as
# detecting it is run against that copy and must report a VIOLATION (exit 1); the scratch copy is removed afterwards.
cd /verif
want=${1:-}
fail=0
for d in seeded/*/; do
  meta=$d/meta.json
  props=$(python3 -c "import json;m=json.load(open('$meta'));print(' '.join(m.get('detected_by_checks',[])))")
  [ -z "$props" ] && continue
  if [ -n "$want" ] && ! echo " $props " | grep -q " $want "; then continue; fi
  wt=$(mktemp -d /tmp/govc-selftest-XXXXXX); rmdir $wt
  git -C /repo worktree add -q --detach $wt HEAD || { echo "cannot create worktree"; exit 2; }
  if git -C $wt apply $(realpath $d)/patch.diff; then
    for p in $props; do
      [ -n "$want" ] && [ "$p" != "$want" ] && continue
      ev=$(mktemp -d /tmp/govc-selftest-ev-XXXXXX)
      if [ "$p" = "C20" ]; then
        C20_MODELS_DIR=$wt/formal-models C20_EVIDENCE=$ev/C20.json C20_REPLAYS=$ev/replays tla/check_c20.sh quick >$ev/out.txt 2>&1; rc=$?
      else
        bin/govc check -prop $p -tier quick -repo $wt -verif $ev -known /verif/known_findings.txt >$ev/out.txt 2>&1; rc=$?
      fi
      if [ $rc -eq 1 ] && grep -q "^VIOLATION property=$p " $ev/out.txt; then echo "KILLED $(basename $d) by $p"; else echo "SURVIVED $(basename $d) vs $p (exit $rc)"; fail=1; fi
      rm -rf $ev
    done
  else
    echo "SKIP $(basename $d): patch does not apply to the current tree"
  fi
  git -C /repo worktree remove --force $wt
done
exit $fail
