#!/bin/sh
# Build the verifier from files on disk only (offline).
set -e
cd "$(dirname "$0")"
export PATH=/opt/veriftools/go1.26.8/bin:$PATH GOFLAGS=-mod=vendor GOPROXY=off GOSUMDB=off GOTOOLCHAIN=local
mkdir -p bin evidence replays
(cd engine && go build -o ../bin/govc .)
