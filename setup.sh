#!/bin/sh
# Build the verifier from files on disk only (offline).
set -e
cd "$(dirname "$0")"
export PATH=/opt/veriftools/go1.26.8/bin:$PATH GOFLAGS=-mod=vendor GOPROXY=off GOSUMDB=off GOTOOLCHAIN=local
mkdir -p bin evidence replays
(cd engine && go build -o ../bin/govc .)
# the composition lemma of C01 (Lean 4 + Mathlib): checked once here; ./check C01 re-checks it when the file changed
if command -v lean >/dev/null 2>&1; then
  out=$(cd lean && timeout 1500 lean Agreement.lean 2>&1) && ! echo "$out" | grep -q "sorryAx\|error" && { sha256sum lean/Agreement.lean | cut -d' ' -f1 > lean/Agreement.ok; echo "$out" > lean/Agreement.out; } || echo "WARNING: lean/Agreement.lean did not check: $out"
fi
