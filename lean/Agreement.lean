/-
Composition step of C01 (agreement), checked by Lean 4 + Mathlib.

The per-node facts are proof obligations of govc on the real Go code (names as in DESIGN.md section 4, C01):
  H1  a block is handed to the application only with commits of the current view from at least M distinct
      validators, each verified against that block                                  (C02: checkCommit/assert:certificate)
  H2  an honest validator signs at most one block per height                         (C03: oneCommit, lock)
  H3  F = (N-1)/3, M = N-F                                                           (C06: F/post, M/post)
This file proves the counting step that the design used to state in prose: two sets of at least M validators out of N
share a validator outside any set of at most F faulty ones; hence, if every honest validator signs at most one block,
two certified blocks of one height are the same block.
-/
import Mathlib.Data.Finset.Card
import Mathlib.Data.Fintype.Card
import Mathlib.Data.Fintype.Basic
import Mathlib.Tactic

open Finset

/-- Two quorums of size at least `M = N - (N-1)/3` among `N` validators intersect in more than `F = (N-1)/3` members. -/
theorem quorum_intersection (N : ℕ) (hN : 1 ≤ N) (Qa Qb : Finset (Fin N))
    (ha : N - (N - 1) / 3 ≤ Qa.card) (hb : N - (N - 1) / 3 ≤ Qb.card) :
    (N - 1) / 3 + 1 ≤ (Qa ∩ Qb).card := by
  have hu : (Qa ∪ Qb).card ≤ N := by
    simpa using Finset.card_le_univ (Qa ∪ Qb)
  have h := Finset.card_union_add_card_inter Qa Qb
  omega

/-- ... hence they share a validator that is not faulty, for any faulty set of at most `F` validators. -/
theorem honest_in_both (N : ℕ) (hN : 1 ≤ N) (Qa Qb Faulty : Finset (Fin N))
    (ha : N - (N - 1) / 3 ≤ Qa.card) (hb : N - (N - 1) / 3 ≤ Qb.card)
    (hf : Faulty.card ≤ (N - 1) / 3) :
    ∃ i, i ∈ Qa ∧ i ∈ Qb ∧ i ∉ Faulty := by
  have hi := quorum_intersection N hN Qa Qb ha hb
  have hlt : Faulty.card < (Qa ∩ Qb).card := by omega
  obtain ⟨i, hiI, hiF⟩ := Finset.exists_mem_notMem_of_card_lt_card hlt
  exact ⟨i, (Finset.mem_inter.mp hiI).1, (Finset.mem_inter.mp hiI).2, hiF⟩

/-- Agreement at one height.  `signed i b`: validator `i` produced a commit signature for block `b` at this height.
H1 gives the two quorums (`Qa` certifies `a`, `Qb` certifies `b`; unforgeability, A6, makes "a verified commit of `i`
for `b`" mean `signed i b` for honest `i`), H2 is `once`. -/
theorem agreement {Block : Type} (N : ℕ) (hN : 1 ≤ N) (signed : Fin N → Block → Prop)
    (Faulty : Finset (Fin N)) (hf : Faulty.card ≤ (N - 1) / 3)
    (once : ∀ i, i ∉ Faulty → ∀ x y, signed i x → signed i y → x = y)
    (a b : Block) (Qa Qb : Finset (Fin N))
    (ha : N - (N - 1) / 3 ≤ Qa.card) (hb : N - (N - 1) / 3 ≤ Qb.card)
    (certA : ∀ i ∈ Qa, i ∉ Faulty → signed i a)
    (certB : ∀ i ∈ Qb, i ∉ Faulty → signed i b) :
    a = b := by
  obtain ⟨i, hia, hib, hif⟩ := honest_in_both N hN Qa Qb Faulty ha hb hf
  exact once i hif a b (certA i hia hif) (certB i hib hif)

#print axioms agreement
