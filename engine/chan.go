package main

// Channels, select and time.Timer: ghost model used for package timer (C18).

import (
	"go/ast"
	"go/types"
)

func (c *Ctx) makeChan(e *ast.CallExpr, T types.Type) Value {
	panic(engineErr("%s: channels not supported here", c.x.pos(e.Pos())))
}

func (c *Ctx) chanRecv(e *ast.UnaryExpr) Value {
	panic(engineErr("%s: channel receive not supported here", c.x.pos(e.Pos())))
}

func (c *Ctx) newTimer(d Value, e *ast.CallExpr) Value {
	panic(engineErr("%s: time.NewTimer not supported here", c.x.pos(e.Pos())))
}

func (c *Ctx) timerIntrinsic(full string, recv Value, args []Value, e *ast.CallExpr, rt types.Type) (Value, bool) {
	return Value{}, false
}

func (x *Exec) selectStmt(fr *Frame, s *ast.SelectStmt, st *State) []*State {
	panic(engineErr("%s: select not supported here", x.pos(s.Pos())))
}

func (x *Exec) sendStmt(fr *Frame, s *ast.SendStmt, st *State) []*State {
	panic(engineErr("%s: channel send not supported here", x.pos(s.Pos())))
}
