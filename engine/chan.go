package main

// Ghost model of the wall clock, buffered channels and time.Timer (used for package timer, C18).
//
//   clock:    a ghost integer w; every time.Now() returns a value >= w and advances w (monotone clock, A9)
//   channel:  a reference with ghost capacity, length (0..cap) and, for capacity 1, the buffered value
//   time.Timer created by time.NewTimer(x) at clock w: a fresh reference with ghost deadline = w + x;
//             its channel is timerC(ref); the runtime delivers on it no earlier than the deadline (A9)

import (
	"go/ast"
	"go/token"
	"go/types"
)

const (
	clockKey    = "G:$clock"
	chanLenKey  = "H:$chan.len"
	chanValKey  = "H:$chan.val"
	chanCapKey  = "H:$chan.cap"
	deadlineKey = "H:$timer.deadline"
	decodedKey  = "G:$decoded"      // the object filled by the most recent gob Decode (codec.go)
	sendsKey    = "G:$sendattempts" // number of channel sends attempted so far (plain sends and send clauses of a select)
)

// lazySpecial gives the not-yet-touched value of a model location ($clock, $chan.*, $timer.*) in an epoch.
func (x *Exec) lazySpecial(key string, ep *Epoch) *Term {
	if ep.a != nil {
		return Ite(ep.cond, x.lazySpecial(key, ep.a), x.lazySpecial(key, ep.b))
	}
	name := key[2:]
	if key[0] == 'H' {
		name = "heap." + name
	}
	if ep.id != "" {
		name += "@" + ep.id
	}
	switch key {
	case clockKey, sendsKey:
		return Var(name, SInt)
	case decodedKey:
		return Var(name, SRef)
	case chanLenKey, chanCapKey, chanValKey, deadlineKey:
		return Var(name, ArraySort(SRef, SInt))
	}
	panic(engineErr("unknown model location %s", key))
}

func isSpecialKey(key string) bool { return len(key) > 2 && key[2] == '$' }

func (x *Exec) ghostInt(st *State, key string) *Term {
	if v, ok := st.store[key]; ok {
		return v.S
	}
	t := x.lazySpecial(key, st.epoch)
	st.store[key] = Scalar(t, nil)
	return t
}

func (x *Exec) ghostArr(st *State, key string, elem Sort) *Term {
	return x.ghostInt(st, key)
}

func (x *Exec) setGhostArr(st *State, key string, arr *Term) { st.store[key] = Scalar(arr, nil) }

// readClock models time.Now(): a reading not before the previous one.
func (c *Ctx) readClock() *Term {
	x := c.x
	w := x.ghostInt(c.st, clockKey)
	r := Fresh("now", SInt)
	c.st.assume(And(Ge(r, w), Ge(r, IntLit(0)), Le(r, IntStr("4611686018427387904"))))
	c.st.store[clockKey] = Scalar(r, nil)
	return r
}

func (c *Ctx) makeChan(e *ast.CallExpr, T types.Type) Value {
	x := c.x
	capT := IntLit(0)
	if len(e.Args) > 1 {
		capT = c.eval(e.Args[1]).S
	}
	r := Fresh("chan", SRef)
	c.st.assume(Neq(r, Nil))
	c.freshFrom(r)
	x.setGhostArr(c.st, chanLenKey, Store(x.ghostArr(c.st, chanLenKey, SInt), r, IntLit(0)))
	x.setGhostArr(c.st, chanCapKey, Store(x.ghostArr(c.st, chanCapKey, SInt), r, capT))
	return Scalar(r, T)
}

func (c *Ctx) chanRecv(e *ast.UnaryExpr) Value {
	panic(engineErr("%s: blocking channel receive not supported (only inside select with default)", c.x.pos(e.Pos())))
}

func (c *Ctx) newTimer(d Value, e *ast.CallExpr) Value {
	x := c.x
	now := c.readClock()
	r := Fresh("timer", SRef)
	c.st.assume(Neq(r, Nil))
	c.freshFrom(r)
	x.setGhostArr(c.st, deadlineKey, Store(x.ghostArr(c.st, deadlineKey, SInt), r, Add(now, d.S)))
	return Scalar(r, c.typeOf(e))
}

func (c *Ctx) timerIntrinsic(full string, recv Value, args []Value, e *ast.CallExpr, rt types.Type) (Value, bool) {
	switch full {
	case "(*time.Timer).Stop", "(*time.Timer).Reset":
		c.oblige("nil", exprText(e.Fun), Neq(recv.S, Nil), e.Pos())
		return c.arbitrary("timer.Stop", rt), true
	}
	return Value{}, false
}

// clockIntrinsic handles time.Now / time.Since inside packages that may read the clock.
func (c *Ctx) clockIntrinsic(full string, args []Value, rt types.Type) (Value, bool) {
	switch full {
	case "time.Now":
		return Scalar(c.readClock(), rt), true
	case "time.Since":
		now := c.readClock()
		return Scalar(Sub(now, args[0].S), rt), true
	}
	return Value{}, false
}

// selectStmt supports the non-blocking forms: select { case <-ch: ... default: ... } and
// select { case ch <- v: ... default: ... }.
func (x *Exec) selectStmt(fr *Frame, s *ast.SelectStmt, st *State) []*State {
	var deflt *ast.CommClause
	var comm *ast.CommClause
	for _, cl := range s.Body.List {
		cc := cl.(*ast.CommClause)
		if cc.Comm == nil {
			deflt = cc
		} else {
			if comm != nil {
				return x.blockingSelect(fr, s, st)
			}
			comm = cc
		}
	}
	if deflt == nil {
		return x.blockingSelect(fr, s, st)
	}
	if comm == nil {
		panic(engineErr("%s: select with only a default clause", x.pos(s.Pos())))
	}
	c := x.ctx(fr, st)
	var chExpr ast.Expr
	switch cm := comm.Comm.(type) {
	case *ast.SendStmt:
		// select { case ch <- v: A  default: B }: the value goes into the buffer if there is room, else B runs;
		// either way one send was attempted
		ch := c.eval(cm.Chan)
		v := c.eval(cm.Value)
		c.oblige("nil", exprText(cm.Chan), Neq(ch.S, Nil), cm.Pos())
		x.setGhostArr(st, sendsKey, Add(x.ghostInt(st, sendsKey), IntLit(1)))
		lenArr := x.ghostArr(st, chanLenKey, SInt)
		capArr := x.ghostArr(st, chanCapKey, SInt)
		n := Select(lenArr, ch.S)
		stS := st.Clone()
		stS.assume(Lt(n, Select(capArr, ch.S)))
		x.setGhostArr(stS, chanLenKey, Store(lenArr, ch.S, Add(n, IntLit(1))))
		if v.Kind == KScalar && v.S.Sort == SInt {
			x.setGhostArr(stS, chanValKey, Store(x.ghostArr(stS, chanValKey, SInt), ch.S, v.S))
		}
		outs := x.block(fr, comm.Body, []*State{stS})
		stD := st.Clone()
		stD.assume(Ge(n, Select(capArr, ch.S)))
		outs = append(outs, x.block(fr, deflt.Body, []*State{stD})...)
		return x.join(outs)
	case *ast.ExprStmt:
		u, ok := unparen(cm.X).(*ast.UnaryExpr)
		if !ok || u.Op != token.ARROW {
			panic(engineErr("%s: unsupported select clause", x.pos(s.Pos())))
		}
		chExpr = u.X
	default:
		panic(engineErr("%s: unsupported select clause %T", x.pos(s.Pos()), cm))
	}
	ch := c.eval(chExpr)
	lenArr := x.ghostArr(st, chanLenKey, SInt)
	n := Select(lenArr, ch.S)
	// receive branch: only if a value is buffered
	stR := st.Clone()
	stR.assume(Gt(n, IntLit(0)))
	x.setGhostArr(stR, chanLenKey, Store(lenArr, ch.S, Sub(n, IntLit(1))))
	outs := x.block(fr, comm.Body, []*State{stR})
	stD := st.Clone()
	stD.assume(Le(n, IntLit(0)))
	outs = append(outs, x.block(fr, deflt.Body, []*State{stD})...)
	return x.join(outs)
}

// sendStmt: ch <- v must not block (there is no other goroutine in the model): obligation len < cap.
func (x *Exec) sendStmt(fr *Frame, s *ast.SendStmt, st *State) []*State {
	c := x.ctx(fr, st)
	ch := c.eval(s.Chan)
	v := c.eval(s.Value)
	lenArr := x.ghostArr(st, chanLenKey, SInt)
	capArr := x.ghostArr(st, chanCapKey, SInt)
	n := Select(lenArr, ch.S)
	c.oblige("nil", exprText(s.Chan), Neq(ch.S, Nil), s.Pos())
	c.oblige("send-blocks", exprText(s.Chan), Lt(n, Select(capArr, ch.S)), s.Pos())
	x.setGhostArr(st, sendsKey, Add(x.ghostInt(st, sendsKey), IntLit(1)))
	x.setGhostArr(st, chanLenKey, Store(lenArr, ch.S, Add(n, IntLit(1))))
	if v.Kind == KScalar && v.S.Sort == SInt {
		x.setGhostArr(st, chanValKey, Store(x.ghostArr(st, chanValKey, SInt), ch.S, v.S))
	}
	return one(st)
}

// freshFrom: a newly allocated object differs from every reference currently held in a variable or field.
func (c *Ctx) freshFrom(r *Term) {
	stores := []map[string]Value{c.st.store}
	if c.fr != nil && len(c.x.frames) > 0 {
		if es := c.x.entryState(c.fr); es != nil {
			stores = append(stores, es.store)
		}
	}
	for _, store := range stores {
		for _, v := range store {
			if v.Kind == KScalar && v.S != nil && v.S.Sort == SRef && v.S != r && v.S != Nil {
				c.st.assume(Neq(r, v.S))
			}
		}
	}
}

// blockingSelect: a select without default waits for one of its clauses; which one fires is
// not determined here (environment choice), a received value is arbitrary.
func (x *Exec) blockingSelect(fr *Frame, s *ast.SelectStmt, st *State) []*State {
	var outs []*State
	// all channel operands are evaluated first, in source order
	for _, cl := range s.Body.List {
		cc := cl.(*ast.CommClause)
		if cc.Comm == nil {
			panic(engineErr("%s: blocking select with default", x.pos(s.Pos())))
		}
		var recv *ast.UnaryExpr
		switch cm := cc.Comm.(type) {
		case *ast.ExprStmt:
			recv, _ = unparen(cm.X).(*ast.UnaryExpr)
		case *ast.AssignStmt:
			if len(cm.Rhs) == 1 {
				recv, _ = unparen(cm.Rhs[0]).(*ast.UnaryExpr)
			}
		}
		if recv == nil || recv.Op != token.ARROW {
			panic(engineErr("%s: only receive clauses are supported in a blocking select", x.pos(cc.Pos())))
		}
		x.ctx(fr, st).eval(recv.X)
	}
	for _, cl := range s.Body.List {
		cc := cl.(*ast.CommClause)
		sc := st.Clone()
		if as, ok := cc.Comm.(*ast.AssignStmt); ok && len(as.Lhs) >= 1 {
			if id, ok := as.Lhs[0].(*ast.Ident); ok && id.Name != "_" {
				T := x.ctx(fr, sc).typeOf(as.Rhs[0])
				if tup, ok := T.(*types.Tuple); ok {
					T = tup.At(0).Type()
				}
				v := x.freshValue("recv."+id.Name, T)
				if as.Tok == token.DEFINE {
					x.defineVar(fr, sc, id, v)
				} else {
					x.assign(x.ctx(fr, sc), id, v)
				}
			}
		}
		outs = append(outs, x.block(fr, cc.Body, []*State{sc})...)
	}
	return x.join(outs)
}
