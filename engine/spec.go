package main

// Spec-expression evaluation: old, quantifiers, count, predicates, unchanged, ...

import (
	"fmt"
	"go/ast"
	"go/types"
	"strings"
)

var bvarSeq int

type countDef struct {
	name string
	key  string
	body func(i *Term) *Term
}

func (c *Ctx) specCtx(pkg *PkgInfo, st, old *State, vars map[string]Value) *Ctx {
	n := &Ctx{x: c.x, st: st, fr: c.fr, spec: true, old: old, pkg: pkg, assuming: c.assuming, loopSpec: c.loopSpec}
	n.vars = map[string]Value{}
	for k, v := range vars {
		n.vars[k] = v
	}
	if _, ok := n.vars["self"]; !ok {
		if sv, ok := c.x.selfValue(pkg); ok {
			n.vars["self"] = sv
		}
	}
	return n
}

func (x *Exec) selfValue(pkg *PkgInfo) (Value, bool) {
	name := pkg.Contracts.Singleton
	if name == "" {
		return Value{}, false
	}
	o := pkg.P.Types.Scope().Lookup(name)
	if o == nil {
		return Value{}, false
	}
	return Value{Kind: KPtr, T: types.NewPointer(o.Type()), Path: ""}, true
}

func (c *Ctx) specEval(e ast.Expr, st, old *State, vars map[string]Value) *Term {
	return c.specEvalIn(c.pkg, e, st, old, vars)
}

func (c *Ctx) specEvalIn(pkg *PkgInfo, e ast.Expr, st, old *State, vars map[string]Value) *Term {
	v := c.specCtx(pkg, st, old, vars).eval(e)
	if v.Kind != KScalar || v.S.Sort != SBool {
		panic(engineErr("spec expression %s is not boolean", exprText(e)))
	}
	return v.S
}

func (c *Ctx) specEvalV(e ast.Expr, st, old *State, vars map[string]Value) Value {
	return c.specCtx(c.pkg, st, old, vars).eval(e)
}

func (c *Ctx) specEvalPred(p *Pred) *Term {
	return c.specCtx(c.pkg, c.st, nil, nil).eval(p.Body).S
}

func (c *Ctx) callPred(p *Pred, e *ast.CallExpr) Value {
	if len(e.Args) != len(p.Params) {
		panic(engineErr("pred %s: %d arguments, want %d", p.Name, len(e.Args), len(p.Params)))
	}
	n := *c
	n.vars = map[string]Value{}
	for k, v := range c.vars {
		n.vars[k] = v
	}
	for i, a := range e.Args {
		n.vars[p.Params[i]] = c.eval(a)
	}
	return n.eval(p.Body)
}

func (c *Ctx) withVar(name string, v Value) *Ctx {
	n := *c
	n.vars = map[string]Value{}
	for k, vv := range c.vars {
		n.vars[k] = vv
	}
	n.vars[name] = v
	return &n
}

// specCall handles the spec-only forms; ok=false means "not a spec form".
func (c *Ctx) specCall(name string, e *ast.CallExpr) (Value, bool) {
	x := c.x
	boolT := types.Typ[types.Bool]
	switch name {
	case "old":
		o := c.old
		if o == nil {
			o = c.st
		}
		n := *c
		n.st = o
		return n.eval(e.Args[0]), true
	case "implies":
		a := c.eval(e.Args[0]).S
		b := c.eval(e.Args[1]).S
		return Scalar(Implies(a, b), boolT), true
	case "iff":
		a := c.eval(e.Args[0]).S
		b := c.eval(e.Args[1]).S
		return Scalar(Eq(a, b), boolT), true
	case "ite":
		cnd := c.eval(e.Args[0]).S
		a := c.eval(e.Args[1])
		b := c.eval(e.Args[2])
		return zip2(a, b, func(p, q *Term) *Term { return Ite(cnd, p, q) }), true
	case "forall", "exists", "forallRef", "existsRef":
		id, ok := e.Args[0].(*ast.Ident)
		if !ok {
			panic(engineErr("%s: first argument must be an identifier", name))
		}
		bvarSeq++
		srt := SInt
		if strings.HasSuffix(name, "Ref") {
			srt = SRef
		}
		bv := BVar(fmt.Sprintf("%s!%d", id.Name, bvarSeq), srt)
		var T types.Type
		if srt == SInt {
			T = types.Typ[types.Int]
		}
		n := c.withVar(id.Name, Scalar(bv, T))
		var rng *Term = True
		body := e.Args[len(e.Args)-1]
		if len(e.Args) == 4 {
			lo := c.eval(e.Args[1]).S
			hi := c.eval(e.Args[2]).S
			rng = And(Le(lo, bv), Lt(bv, hi))
		}
		b := n.eval(body).S
		if strings.HasPrefix(name, "forall") {
			return Scalar(Forall([]*Term{bv}, Implies(rng, b)), boolT), true
		}
		return Scalar(Exists([]*Term{bv}, And(rng, b)), boolT), true
	case "forallOf", "existsOf":
		// forallOf(TypeName, m, P): m ranges over all references, typed as TypeName
		tn, ok1 := e.Args[0].(*ast.Ident)
		id, ok2 := e.Args[1].(*ast.Ident)
		if !ok1 || !ok2 {
			panic(engineErr("%s(Type, var, P)", name))
		}
		o := c.pkg.P.Types.Scope().Lookup(tn.Name)
		if o == nil {
			panic(engineErr("%s: unknown type %s", name, tn.Name))
		}
		bvarSeq++
		bv := BVar(fmt.Sprintf("%s!%d", id.Name, bvarSeq), SRef)
		bt := o.Type()
		if _, isStruct := bt.Underlying().(*types.Struct); isStruct {
			bt = types.NewPointer(bt) // quantify over pointers to the struct
		}
		n := c.withVar(id.Name, Scalar(bv, bt))
		b := n.eval(e.Args[2]).S
		if name == "forallOf" {
			return Scalar(Forall([]*Term{bv}, b), boolT), true
		}
		return Scalar(Exists([]*Term{bv}, b), boolT), true
	case "count":
		id := e.Args[0].(*ast.Ident)
		lo := c.eval(e.Args[1]).S
		hi := c.eval(e.Args[2]).S
		bvarSeq++
		bv := BVar(fmt.Sprintf("%s!%d", id.Name, bvarSeq), SInt)
		n := c.withVar(id.Name, Scalar(bv, types.Typ[types.Int]))
		body := n.eval(e.Args[3]).S
		return Scalar(x.countTerm(body, bv, lo, hi, 0), types.Typ[types.Int]), true
	case "unchanged":
		o := c.old
		if o == nil {
			panic(engineErr("unchanged(...) without an old state"))
		}
		var cs []*Term
		for _, a := range e.Args {
			n := *c
			n.st = o
			ov := n.eval(a)
			nv := c.eval(a)
			cs = append(cs, valueEq(ov, nv))
		}
		return Scalar(And(cs...), boolT), true
	case "emod":
		return Scalar(EMod(c.eval(e.Args[0]).S, c.eval(e.Args[1]).S), types.Typ[types.Int]), true
	case "ediv":
		return Scalar(EDiv(c.eval(e.Args[0]).S, c.eval(e.Args[1]).S), types.Typ[types.Int]), true
	case "shl":
		return Scalar(Mul(c.eval(e.Args[0]).S, pow2Term(c.eval(e.Args[1]).S)), types.Typ[types.Int]), true
	case "pow2":
		return Scalar(pow2Term(c.eval(e.Args[0]).S), types.Typ[types.Int]), true
	case "len":
		v := c.eval(e.Args[0])
		switch v.Kind {
		case KSlice:
			return Scalar(v.Len, types.Typ[types.Int]), true
		case KMap:
			return Scalar(v.Size, types.Typ[types.Int]), true
		}
		panic(engineErr("spec: len of %s", exprText(e.Args[0])))
	case "has":
		m := c.eval(e.Args[0])
		k := c.eval(e.Args[1])
		return Scalar(Select(m.Has, k.S), boolT), true
	case "isnil":
		v := c.eval(e.Args[0])
		if v.Kind == KSlice || v.Kind == KMap {
			return Scalar(v.IsNil, boolT), true
		}
		return Scalar(Eq(v.S, Nil), boolT), true
	case "int", "uint", "int64", "uint64", "uint32", "int32", "uint16", "byte", "uint8", "Int":
		v := c.eval(e.Args[0])
		return Scalar(v.S, types.Typ[types.Int]), true
	case "min", "max":
		r := c.eval(e.Args[0]).S
		for _, a := range e.Args[1:] {
			v := c.eval(a).S
			if name == "min" {
				r = Ite(Le(r, v), r, v)
			} else {
				r = Ite(Ge(r, v), r, v)
			}
		}
		return Scalar(r, types.Typ[types.Int]), true
	case "visited", "rangehas":
		// inside a range-over-map loop: visited(k) / rangehas(k) (key set at loop start)
		key, ok := c.fr.scope["$"+name]
		if !ok {
			panic(engineErr("%s(...) outside a range-over-map loop", name))
		}
		arr := c.st.store[key].S
		k := c.eval(e.Args[0])
		return Scalar(Select(arr, k.S), boolT), true
	case "clock":
		return Scalar(x.ghostInt(c.st, clockKey), types.Typ[types.Int]), true
	case "be32", "le32":
		// be32(s): the big-endian (little-endian) 32-bit value of the first four bytes of the byte slice s
		v := c.eval(e.Args[0])
		if v.Kind != KSlice {
			panic(engineErr("%s(s): byte slice expected", name))
		}
		return Scalar(x.byteOrder32(name, v.Arr), types.Typ[types.Uint32]), true
	case "called":
		// called(f): the contracted function f was called on this path
		id, ok := e.Args[0].(*ast.Ident)
		if !ok || len(e.Args) != 1 {
			panic(engineErr("called(f): function name expected"))
		}
		if c.st.after["<"+id.Name] != nil {
			return Scalar(True, boolT), true
		}
		return Scalar(False, boolT), true
	case "beforecall":
		// beforecall(f, e): the value of e right before the most recent call of the contracted function f on this path
		// (the current value when f was not called on this path)
		id, ok := e.Args[0].(*ast.Ident)
		if !ok || len(e.Args) != 2 {
			panic(engineErr("beforecall(f, e): function name and expression expected"))
		}
		n := *c
		if snap := c.st.after["<"+id.Name]; snap != nil {
			n.st = snap
		}
		return n.eval(e.Args[1]), true
	case "aftercall":
		// aftercall(f, e): the value of e right after the most recent call of the contracted function f on this path
		// (at function entry when f was not called on this path)
		id, ok := e.Args[0].(*ast.Ident)
		if !ok || len(e.Args) != 2 {
			panic(engineErr("aftercall(f, e): function name and expression expected"))
		}
		n := *c
		if snap := c.st.after[id.Name]; snap != nil {
			n.st = snap
		} else if c.old != nil {
			n.st = c.old
		}
		return n.eval(e.Args[1]), true
	case "sha256of":
		// sha256of(b): what crypto/sha256.Sum256 gives for b - the same uninterpreted function the code's calls of
		// Sum256 are modelled with (Sum256 must be declared `extern ... pure` in the contract file)
		v := c.eval(e.Args[0])
		if v.Kind != KSlice {
			panic(engineErr("sha256of(b): byte slice expected"))
		}
		return c.pureUF("crypto/sha256.Sum256", types.NewArray(types.Typ[types.Uint8], 32), Value{Kind: KNone}, []Value{v}), true
	case "bytesof":
		// bytesof(v): the bytes of an opaque array value (what v[:] gives in the code)
		v := c.eval(e.Args[0])
		if v.Kind == KScalar {
			if ob, ok := x.opaqueBytes(v.S, v.T); ok {
				return ob, true
			}
		}
		panic(engineErr("bytesof(v): v is not a value of an opaque byte-array type"))
	case "sendattempts":
		return Scalar(x.ghostInt(c.st, sendsKey), types.Typ[types.Int]), true
	case "before":
		// before(e), in a loop invariant: the value of e in the state just before the loop
		if c.loopSpec == nil || c.fr == nil || c.fr.beforeLoop[c.loopSpec] == nil {
			panic(engineErr("before(...) outside a loop invariant"))
		}
		n := *c
		n.st = c.fr.beforeLoop[c.loopSpec]
		return n.eval(e.Args[0]), true
	case "fresh":
		// fresh(v): v was allocated by this function.  Proved: v is one of the objects allocated on
		// this path.  Assumed (at a call site): v differs from every reference the caller's state held
		// before the call.
		v := c.eval(e.Args[0])
		if v.Kind == KSlice {
			// fresh(s) for a slice: the backing store was allocated by this function (make, append to nil, a clone, the
			// bytes of a buffer declared in the body) - nobody else holds it.  Assumed at a call site: nothing to add.
			if c.assuming {
				return Scalar(True, boolT), true
			}
			if v.Own {
				return Scalar(True, boolT), true
			}
			return Scalar(False, boolT), true
		}
		if v.Kind != KScalar || v.S.Sort != SRef {
			panic(engineErr("fresh(v): v is not a reference"))
		}
		if c.assuming {
			if c.old == nil {
				panic(engineErr("fresh(v) needs the state before the call"))
			}
			return Scalar(And(Neq(v.S, Nil), freshTerm(v.S, c.old.store)), boolT), true
		}
		var alts []*Term
		for _, r := range x.freshRefs {
			alts = append(alts, Eq(v.S, r))
		}
		return Scalar(Or(alts...), boolT), true
	case "as":
		// as(T, v): the reference v viewed as a pointer to the package's struct type T (a checked
		// downcast in Go; here only a change of the static type used to resolve field names)
		id, ok := e.Args[0].(*ast.Ident)
		if !ok || len(e.Args) != 2 {
			panic(engineErr("as(T, v): type name and value expected"))
		}
		o := c.pkg.P.Types.Scope().Lookup(id.Name)
		if o == nil {
			panic(engineErr("as(%s, ...): unknown type", id.Name))
		}
		v := c.eval(e.Args[1])
		if v.Kind != KScalar || v.S.Sort != SRef {
			panic(engineErr("as(%s, v): v is not a reference", id.Name))
		}
		return Scalar(v.S, types.NewPointer(o.Type())), true
	case "decoded":
		// decoded(T): the object of struct type T filled by the most recent gob Decode
		id, ok := e.Args[0].(*ast.Ident)
		if !ok {
			panic(engineErr("decoded(T): type name expected"))
		}
		o := c.pkg.P.Types.Scope().Lookup(id.Name)
		if o == nil {
			panic(engineErr("decoded(%s): unknown type", id.Name))
		}
		return Scalar(x.ghostInt(c.st, decodedKey), types.NewPointer(o.Type())), true
	case "deadline", "chanlen", "chanval", "chancap":
		key := map[string]string{"deadline": deadlineKey, "chanlen": chanLenKey, "chanval": chanValKey, "chancap": chanCapKey}[name]
		r := c.eval(e.Args[0])
		return Scalar(Select(x.ghostArr(c.st, key, SInt), r.S), types.Typ[types.Int]), true
	case "first":
		v := c.eval(e.Args[0])
		if v.Kind != KTuple {
			panic(engineErr("first(...) of a non-tuple"))
		}
		return v.Elems[0], true
	case "second", "third":
		v := c.eval(e.Args[0])
		k := map[string]int{"second": 1, "third": 2}[name]
		if v.Kind != KTuple || len(v.Elems) <= k {
			panic(engineErr("%s(...) of a value without that component", name))
		}
		return v.Elems[k], true
	case "tzero":
		return Scalar(timeZero(), nil), true
	case "sameelems":
		// sameelems(a, b): equal lengths and equal elements below the length (what lies beyond is not compared)
		a := c.eval(e.Args[0])
		b := c.eval(e.Args[1])
		if a.Kind != KSlice || b.Kind != KSlice {
			panic(engineErr("sameelems: slices expected"))
		}
		bvarSeq++
		i := BVar(fmt.Sprintf("i!se%d", bvarSeq), SInt)
		return Scalar(And(Eq(a.Len, b.Len), Forall([]*Term{i}, Implies(And(Le(IntLit(0), i), Lt(i, a.Len)), Eq(Select(a.Arr, i), Select(b.Arr, i))))), boolT), true
	case "sametable":
		// sametable(a, b): slices equal element-wise including length
		a := c.eval(e.Args[0])
		b := c.eval(e.Args[1])
		if a.Kind == KSlice && b.Kind == KSlice {
			return Scalar(And(Eq(a.Len, b.Len), Eq(a.Arr, b.Arr)), boolT), true
		}
		return Scalar(valueEq(a, b), boolT), true
	}
	return Value{}, false
}

// countTerm returns cnt_P(lo,hi) for the predicate P = λbv. body, creating the count
// function on first use, and records frame facts: counting over store(A,k,v) or
// ite(c,A,B) is related to counting over A (and B).
func (x *Exec) countTerm(body, bv, lo, hi *Term, depth int) *Term {
	key := strings.ReplaceAll(body.String(), bv.Name, "$i")
	cd := x.counts[key]
	if cd == nil {
		cd = &countDef{name: fmt.Sprintf("cnt!%d", len(x.counts)+1), key: key,
			body: func(i *Term) *Term { return Subst(body, map[*Term]*Term{bv: i}) }}
		x.counts[key] = cd
	}
	t := App(cd.name, SInt, lo, hi)
	if depth > 6 {
		return t
	}
	// find an array-valued store / ite that is only ever read at the bound index
	var cand *Term
	seen := map[int]bool{}
	var find func(u *Term)
	find = func(u *Term) {
		if cand != nil || seen[u.id] {
			return
		}
		seen[u.id] = true
		if u.Op == "select" && u.Args[1] == bv && (u.Args[0].Op == "store" || u.Args[0].Op == "ite") && !u.Args[0].bound {
			if onlySelectedAt(body, u.Args[0], bv) {
				cand = u.Args[0]
				return
			}
		}
		for _, a := range u.Args {
			find(a)
		}
	}
	find(body)
	if cand == nil {
		return t
	}
	in := func(k *Term) *Term { return And(Le(lo, k), Lt(k, hi)) }
	b2i := func(b *Term) *Term { return Ite(b, IntLit(1), IntLit(0)) }
	switch cand.Op {
	case "store":
		A, k := cand.Args[0], cand.Args[1]
		if k.bound {
			return t
		}
		body0 := Subst(body, map[*Term]*Term{cand: A})
		t0 := x.countTerm(body0, bv, lo, hi, depth+1)
		pNew := Subst(body, map[*Term]*Term{bv: k})
		pOld := Subst(body0, map[*Term]*Term{bv: k})
		x.addFact(t, Eq(t, Add(Sub(t0, b2i(And(in(k), pOld))), b2i(And(in(k), pNew)))))
	case "ite":
		cnd, A, B := cand.Args[0], cand.Args[1], cand.Args[2]
		if cnd.bound {
			return t
		}
		tA := x.countTerm(Subst(body, map[*Term]*Term{cand: A}), bv, lo, hi, depth+1)
		tB := x.countTerm(Subst(body, map[*Term]*Term{cand: B}), bv, lo, hi, depth+1)
		x.addFact(t, Eq(t, Ite(cnd, tA, tB)))
	}
	return t
}

// onlySelectedAt: every occurrence of arr inside body is as select(arr, bv).
func onlySelectedAt(body, arr, bv *Term) bool {
	ok := true
	seen := map[int]bool{}
	var walk func(u *Term, parentSel bool)
	walk = func(u *Term, parentSel bool) {
		if !ok {
			return
		}
		if u == arr {
			if !parentSel {
				ok = false
			}
			return
		}
		if seen[u.id] {
			return
		}
		seen[u.id] = true
		for i, a := range u.Args {
			walk(a, u.Op == "select" && i == 0 && u.Args[1] == bv)
		}
	}
	walk(body, false)
	return ok
}
