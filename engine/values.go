package main

// Symbolic values and the mapping from Go types to SMT representations.

import (
	"fmt"
	"go/types"
	"math/big"
	"strings"
)

type VKind int

const (
	KScalar VKind = iota
	KSlice        // also fixed-size arrays
	KMap
	KStruct
	KPtr // reference to the static (singleton) struct at Path
	KTuple
	KNone
)

type Value struct {
	Kind   VKind
	T      types.Type
	S      *Term // scalar
	Arr    *Term // slice / map contents
	Len    *Term // slice length
	IsNil  *Term // slice / map nil flag
	Has    *Term // map: presence array
	Size   *Term // map: number of keys
	Fields map[string]Value
	Path   string
	Elems  []Value
	Own    bool // slice: the backing store was allocated by the function under verification and has not been handed out (see fresh(s))
}

func Scalar(t *Term, T types.Type) Value { return Value{Kind: KScalar, S: t, T: T} }

func (v Value) String() string {
	switch v.Kind {
	case KScalar:
		return v.S.String()
	case KSlice:
		return fmt.Sprintf("slice(%s,len=%s)", v.Arr, v.Len)
	case KMap:
		return fmt.Sprintf("map(%s,size=%s)", v.Arr, v.Size)
	case KPtr:
		return "&static:" + v.Path
	case KStruct:
		return fmt.Sprintf("struct%v", v.Fields)
	case KTuple:
		return fmt.Sprintf("tuple%v", v.Elems)
	}
	return "none"
}

// components lists the SMT terms of a value in a fixed order.
func (v Value) components() []*Term {
	switch v.Kind {
	case KScalar:
		return []*Term{v.S}
	case KSlice:
		return []*Term{v.Arr, v.Len, v.IsNil}
	case KMap:
		return []*Term{v.Arr, v.Has, v.Size, v.IsNil}
	case KStruct:
		var out []*Term
		for _, n := range sortedKeys(v.Fields) {
			out = append(out, v.Fields[n].components()...)
		}
		return out
	case KTuple:
		var out []*Term
		for _, e := range v.Elems {
			out = append(out, e.components()...)
		}
		return out
	}
	return nil
}

// mapTerms rebuilds a value of the same shape with f applied to each term.
func (v Value) mapTerms(f func(*Term) *Term) Value {
	r := v
	switch v.Kind {
	case KScalar:
		r.S = f(v.S)
	case KSlice:
		r.Arr, r.Len, r.IsNil = f(v.Arr), f(v.Len), f(v.IsNil)
	case KMap:
		r.Arr, r.Has, r.Size, r.IsNil = f(v.Arr), f(v.Has), f(v.Size), f(v.IsNil)
	case KStruct:
		r.Fields = map[string]Value{}
		for n, fv := range v.Fields {
			r.Fields[n] = fv.mapTerms(f)
		}
	case KTuple:
		r.Elems = make([]Value, len(v.Elems))
		for i, e := range v.Elems {
			r.Elems[i] = e.mapTerms(f)
		}
	}
	return r
}

// zip2 combines two values of the same shape.
func zip2(a, b Value, f func(x, y *Term) *Term) Value {
	if a.Kind != b.Kind {
		panic(engineErr("cannot combine values of different kinds: %v / %v", a, b))
	}
	r := a
	r.Own = a.Own && b.Own
	switch a.Kind {
	case KScalar:
		r.S = f(a.S, b.S)
	case KSlice:
		r.Arr, r.Len, r.IsNil = f(a.Arr, b.Arr), f(a.Len, b.Len), f(a.IsNil, b.IsNil)
	case KMap:
		r.Arr, r.Has, r.Size, r.IsNil = f(a.Arr, b.Arr), f(a.Has, b.Has), f(a.Size, b.Size), f(a.IsNil, b.IsNil)
	case KStruct:
		r.Fields = map[string]Value{}
		for n, fv := range a.Fields {
			r.Fields[n] = zip2(fv, b.Fields[n], f)
		}
	case KTuple:
		r.Elems = make([]Value, len(a.Elems))
		for i := range a.Elems {
			r.Elems[i] = zip2(a.Elems[i], b.Elems[i], f)
		}
	case KPtr:
		if a.Path != b.Path {
			panic(engineErr("cannot merge distinct static references %q / %q", a.Path, b.Path))
		}
	}
	return r
}

func sameValue(a, b Value) bool {
	if a.Kind != b.Kind {
		return false
	}
	if a.Kind == KPtr {
		return a.Path == b.Path
	}
	ca, cb := a.components(), b.components()
	if len(ca) != len(cb) {
		return false
	}
	for i := range ca {
		if ca[i] != cb[i] {
			return false
		}
	}
	return true
}

// valueEq is the conjunction of component equalities (extensional for arrays).
func valueEq(a, b Value) *Term {
	if a.Kind == KPtr && b.Kind == KPtr {
		return BoolLit(a.Path == b.Path)
	}
	ca, cb := a.components(), b.components()
	if len(ca) != len(cb) {
		panic(engineErr("valueEq: shape mismatch %v / %v", a, b))
	}
	var cs []*Term
	for i := range ca {
		cs = append(cs, Eq(ca[i], cb[i]))
	}
	return And(cs...)
}

func sortedKeys[V any](m map[string]V) []string {
	out := make([]string, 0, len(m))
	for k := range m {
		out = append(out, k)
	}
	sortStrings(out)
	return out
}

type EngineError struct{ Msg string }

func (e *EngineError) Error() string { return e.Msg }

func engineErr(f string, a ...any) *EngineError { return &EngineError{fmt.Sprintf(f, a...)} }

// ---- Go types ---------------------------------------------------------

func isTimeTime(t types.Type) bool {
	n, ok := types.Unalias(t).(*types.Named)
	return ok && n.Obj().Pkg() != nil && n.Obj().Pkg().Path() == "time" && n.Obj().Name() == "Time"
}

// atomicElem: for sync/atomic.Uint64, Int32, Bool ... the basic type of the value held (single-threaded model:
// an atomic is a plain variable, A1).
func atomicElem(t types.Type) (types.Type, bool) {
	n, ok := types.Unalias(t).(*types.Named)
	if !ok || n.Obj().Pkg() == nil || n.Obj().Pkg().Path() != "sync/atomic" {
		return nil, false
	}
	switch n.Obj().Name() {
	case "Uint64":
		return types.Typ[types.Uint64], true
	case "Uint32":
		return types.Typ[types.Uint32], true
	case "Int64":
		return types.Typ[types.Int64], true
	case "Int32":
		return types.Typ[types.Int32], true
	case "Bool":
		return types.Typ[types.Bool], true
	}
	return nil, false
}

func namedOf(t types.Type) *types.Named {
	t = types.Unalias(t)
	if p, ok := t.(*types.Pointer); ok {
		t = types.Unalias(p.Elem())
	}
	n, _ := t.(*types.Named)
	return n
}

func typeName(t types.Type) string {
	if n := namedOf(t); n != nil {
		return n.Obj().Name()
	}
	return ""
}

// intRange returns the value range of an integer type (64-bit int/uint).
func intRange(t types.Type) (lo, hi *big.Int, ok bool) {
	b, isB := types.Unalias(t).Underlying().(*types.Basic)
	if !isB || b.Info()&types.IsInteger == 0 {
		return nil, nil, false
	}
	pow := func(n uint) *big.Int { return new(big.Int).Lsh(big.NewInt(1), n) }
	signed := func(n uint) (*big.Int, *big.Int, bool) {
		return new(big.Int).Neg(pow(n - 1)), new(big.Int).Sub(pow(n-1), big.NewInt(1)), true
	}
	unsigned := func(n uint) (*big.Int, *big.Int, bool) {
		return big.NewInt(0), new(big.Int).Sub(pow(n), big.NewInt(1)), true
	}
	switch b.Kind() {
	case types.Int8:
		return signed(8)
	case types.Int16:
		return signed(16)
	case types.Int32:
		return signed(32)
	case types.Int, types.Int64:
		return signed(64)
	case types.Uint8:
		return unsigned(8)
	case types.Uint16:
		return unsigned(16)
	case types.Uint32:
		return unsigned(32)
	case types.Uint, types.Uint64, types.Uintptr:
		return unsigned(64)
	case types.UntypedInt, types.UntypedRune:
		return nil, nil, false
	}
	return nil, nil, false
}

func inRange(t *Term, T types.Type) *Term {
	lo, hi, ok := intRange(T)
	if !ok {
		return True
	}
	return And(Le(BigLit(lo), t), Le(t, BigLit(hi)))
}

func (x *Exec) isRepoStruct(t types.Type) (*types.Named, *types.Struct, bool) {
	t = types.Unalias(t)
	n, ok := t.(*types.Named)
	if !ok {
		if s, ok := t.(*types.Struct); ok {
			return nil, s, true
		}
		return nil, nil, false
	}
	s, ok := n.Underlying().(*types.Struct)
	if !ok {
		return nil, nil, false
	}
	if n.Obj().Pkg() == nil || x.w.Pkgs[n.Obj().Pkg().Path()] == nil {
		return nil, nil, false
	}
	if x.contracts().Opaque[n.Obj().Name()] {
		return nil, nil, false
	}
	return n, s, true
}

// staticPath returns the static path for pointers/values of receiver-mapped struct types.
func (x *Exec) staticPath(t types.Type) (string, bool) {
	n := namedOf(t)
	if n == nil {
		return "", false
	}
	if n.Obj().Pkg() == nil || x.w.Pkgs[n.Obj().Pkg().Path()] == nil {
		return "", false
	}
	p, ok := x.contractsOf(n.Obj().Pkg().Path()).Receivers[n.Obj().Name()]
	return p, ok
}

// isOpaqueNamed: a named type declared opaque in the contract file (values are compared, never inspected).
func (x *Exec) isOpaqueNamed(t types.Type) bool {
	n, ok := types.Unalias(t).(*types.Named)
	if !ok || n.Obj().Pkg() == nil {
		return false
	}
	op := x.contracts().Opaque
	return op[n.Obj().Name()] || op[n.Obj().Pkg().Name()+"."+n.Obj().Name()]
}

func (x *Exec) kindOf(t types.Type) VKind {
	t = types.Unalias(t)
	if isTimeTime(t) || x.isOpaqueNamed(t) {
		return KScalar
	}
	if _, ok := atomicElem(t); ok {
		return KScalar
	}
	switch u := t.Underlying().(type) {
	case *types.Slice, *types.Array:
		return KSlice
	case *types.Map:
		return KMap
	case *types.Struct:
		if _, _, ok := x.isRepoStruct(t); ok {
			if _, static := x.staticPath(t); static {
				return KPtr
			}
			return KStruct
		}
		return KScalar
	case *types.Pointer:
		if _, ok := x.staticPath(u.Elem()); ok {
			return KPtr
		}
		return KScalar
	case *types.Tuple:
		return KTuple
	}
	return KScalar
}

func (x *Exec) scalarSort(t types.Type) Sort {
	t = types.Unalias(t)
	if isTimeTime(t) {
		return SInt
	}
	if x.isOpaqueNamed(t) {
		return SRef
	}
	if et, ok := atomicElem(t); ok {
		return x.scalarSort(et)
	}
	switch u := t.Underlying().(type) {
	case *types.Basic:
		switch {
		case u.Info()&types.IsBoolean != 0:
			return SBool
		case u.Info()&types.IsInteger != 0:
			return SInt
		case u.Info()&types.IsFloat != 0:
			panic(engineErr("floating point is not supported"))
		}
		return SRef
	}
	return SRef
}

func elemType(t types.Type) types.Type {
	switch u := types.Unalias(t).Underlying().(type) {
	case *types.Slice:
		return u.Elem()
	case *types.Array:
		return u.Elem()
	case *types.Map:
		return u.Elem()
	case *types.Pointer:
		return elemType(u.Elem())
	}
	panic(engineErr("elemType of %s", t))
}

func (x *Exec) elemSort(t types.Type) Sort {
	et := elemType(t)
	switch x.kindOf(et) {
	case KScalar:
		return x.scalarSort(et)
	case KStruct:
		return SRef // elements are boxed: a reference to an immutable copy of the struct value
	case KSlice:
		return SRef // a slice of slices: references to boxed slice values
	}
	panic(engineErr("containers of composite elements are not supported: %s", t))
}

// symbolic builds a symbolic value of type T whose components are named name.*;
// mk creates the leaf terms.
func (x *Exec) symbolic(name string, T types.Type, mk func(n string, s Sort) *Term) Value {
	switch x.kindOf(T) {
	case KScalar:
		t := mk(name, x.scalarSort(T))
		if !x.noFacts {
			x.rangeFact(t, T)
		}
		return Scalar(t, T)
	case KSlice:
		es := x.elemSort(T)
		v := Value{Kind: KSlice, T: T, Arr: mk(name+".arr", ArraySort(SInt, es)), Len: mk(name+".len", SInt), IsNil: mk(name+".isnil", SBool)}
		if a, ok := types.Unalias(T).Underlying().(*types.Array); ok && !x.noFacts {
			v.Len = IntLit(a.Len())
			v.IsNil = False
		} else if !x.noFacts {
			x.addFact(v.Len, And(Le(IntLit(0), v.Len), Le(v.Len, IntStr("4611686018427387904"))))
			x.noteRange(v.Len, big.NewInt(0), new(big.Int).Lsh(big.NewInt(1), 62))
			x.addFact(v.IsNil, Implies(v.IsNil, Eq(v.Len, IntLit(0))))
		}
		return v
	case KMap:
		m := types.Unalias(T).Underlying().(*types.Map)
		if x.kindOf(m.Key()) != KScalar {
			panic(engineErr("map key type %s not supported", m.Key()))
		}
		ks := x.scalarSort(m.Key())
		es := x.elemSort(T)
		v := Value{Kind: KMap, T: T, Arr: mk(name+".arr", ArraySort(ks, es)), Has: mk(name+".has", ArraySort(ks, SBool)),
			Size: mk(name+".size", SInt), IsNil: mk(name+".isnil", SBool)}
		if !x.noFacts {
			x.addFact(v.Size, Le(IntLit(0), v.Size))
			x.addFact(v.IsNil, Implies(v.IsNil, Eq(v.Size, IntLit(0))))
		}
		return v
	case KStruct:
		_, s, _ := x.isRepoStruct(T)
		v := Value{Kind: KStruct, T: T, Fields: map[string]Value{}}
		for i := 0; i < s.NumFields(); i++ {
			f := s.Field(i)
			v.Fields[f.Name()] = x.symbolic(name+"."+f.Name(), f.Type(), mk)
		}
		return v
	case KPtr:
		p, _ := x.staticPath(T)
		return Value{Kind: KPtr, T: T, Path: p}
	case KTuple:
		tup := T.(*types.Tuple)
		v := Value{Kind: KTuple, T: T}
		for i := 0; i < tup.Len(); i++ {
			v.Elems = append(v.Elems, x.symbolic(fmt.Sprintf("%s.%d", name, i), tup.At(i).Type(), mk))
		}
		return v
	}
	panic(engineErr("symbolic: unsupported type %s", T))
}

func (x *Exec) freshValue(prefix string, T types.Type) Value {
	prefix = strings.ReplaceAll(prefix, " ", "_")
	freshCounter[prefix]++
	n := fmt.Sprintf("%s!%d", prefix, freshCounter[prefix])
	return x.symbolic(n, T, func(n string, s Sort) *Term { return Var(n, s) })
}

// zeroValue of a Go type.
func (x *Exec) zeroValue(T types.Type) Value {
	switch x.kindOf(T) {
	case KScalar:
		switch x.scalarSort(T) {
		case SInt:
			if isTimeTime(T) {
				return Scalar(timeZero(), T)
			}
			return Scalar(IntLit(0), T)
		case SBool:
			return Scalar(False, T)
		}
		if b, ok := types.Unalias(T).Underlying().(*types.Basic); ok && b.Info()&types.IsString != 0 {
			return Scalar(Var("str!empty", SRef), T)
		}
		return Scalar(Nil, T)
	case KSlice:
		es := x.elemSort(T)
		v := Value{Kind: KSlice, T: T, Arr: ConstArray(ArraySort(SInt, es), zeroOfSort(es)), Len: IntLit(0), IsNil: True}
		if a, ok := types.Unalias(T).Underlying().(*types.Array); ok {
			v.Len = IntLit(a.Len())
			v.IsNil = False
		}
		return v
	case KMap:
		m := types.Unalias(T).Underlying().(*types.Map)
		ks := x.scalarSort(m.Key())
		es := x.elemSort(T)
		return Value{Kind: KMap, T: T, Arr: ConstArray(ArraySort(ks, es), zeroOfSort(es)), Has: ConstArray(ArraySort(ks, SBool), False), Size: IntLit(0), IsNil: True}
	case KStruct:
		_, s, _ := x.isRepoStruct(T)
		v := Value{Kind: KStruct, T: T, Fields: map[string]Value{}}
		for i := 0; i < s.NumFields(); i++ {
			f := s.Field(i)
			v.Fields[f.Name()] = x.zeroValue(f.Type())
		}
		return v
	}
	panic(engineErr("zeroValue: unsupported type %s", T))
}

func zeroOfSort(s Sort) *Term {
	switch s {
	case SInt:
		return IntLit(0)
	case SBool:
		return False
	case SRef:
		return Nil
	}
	panic("zeroOfSort " + string(s))
}

// timeZero is the zero time.Time: an instant before every clock reading.
func timeZero() *Term { return IntStr("-62135596800000000000") }
