package main

// Expression evaluation for code (typed AST) and for spec expressions (parsed
// without type information; typing is derived from the values).

import (
	"fmt"
	"go/ast"
	"go/constant"
	"go/token"
	"go/types"
	"math/big"
	"strings"
)

// Ctx is the evaluation context of one expression.
type Ctx struct {
	x        *Exec
	st       *State
	fr       *Frame
	spec     bool             // spec mode: no obligations, mathematical integers
	old      *State           // state denoted by old(...)
	vars     map[string]Value // spec variables: params, result, bound variables
	guard    *Term            // extra guard for obligations (short-circuit)
	info     *types.Info
	pkg      *PkgInfo
	loopSpec *LoopSpec // the loop whose invariant is being evaluated (before(e))
	curRecv  Value     // receiver of the call whose at-call clauses are being evaluated
	assuming bool      // the clause being evaluated is assumed (callee contract at a call site), not proved
}

func (c *Ctx) withState(st *State) *Ctx { n := *c; n.st = st; return &n }

func (c *Ctx) typeOf(e ast.Expr) types.Type {
	if c.info != nil {
		if tv, ok := c.info.Types[e]; ok {
			return tv.Type
		}
		if id, ok := e.(*ast.Ident); ok {
			if o := c.info.ObjectOf(id); o != nil {
				return o.Type()
			}
		}
	}
	return nil
}

func (c *Ctx) oblige(kind, hint string, goal *Term, p token.Pos) {
	if c.spec || c.x.quiet > 0 {
		return
	}
	st := c.st
	if c.guard != nil {
		st = st.Clone()
		st.assume(c.guard)
	}
	c.x.oblige(st, kind, hint, c.x.runTags(c.fr), goal, p, "")
}

func (x *Exec) runTags(fr *Frame) []string {
	if fr != nil && fr.fi != nil && fr.fi.Spec != nil && fr.fi.Spec.NoPanic != nil {
		return fr.fi.Spec.NoPanic
	}
	if x.fn.Spec != nil && x.fn.Spec.NoPanic != nil {
		return x.fn.Spec.NoPanic
	}
	return x.pkg.Contracts.RunTags
}

func exprText(e ast.Expr) string {
	var sb strings.Builder
	writeExpr(&sb, e)
	s := sb.String()
	if len(s) > 60 {
		s = s[:60]
	}
	return s
}

func writeExpr(sb *strings.Builder, e ast.Expr) {
	switch v := e.(type) {
	case *ast.Ident:
		sb.WriteString(v.Name)
	case *ast.SelectorExpr:
		writeExpr(sb, v.X)
		sb.WriteString("." + v.Sel.Name)
	case *ast.IndexExpr:
		writeExpr(sb, v.X)
		sb.WriteString("[")
		writeExpr(sb, v.Index)
		sb.WriteString("]")
	case *ast.CallExpr:
		writeExpr(sb, v.Fun)
		sb.WriteString("(")
		for i, a := range v.Args {
			if i > 0 {
				sb.WriteString(",")
			}
			writeExpr(sb, a)
		}
		sb.WriteString(")")
	case *ast.BasicLit:
		sb.WriteString(v.Value)
	case *ast.BinaryExpr:
		writeExpr(sb, v.X)
		sb.WriteString(v.Op.String())
		writeExpr(sb, v.Y)
	case *ast.UnaryExpr:
		sb.WriteString(v.Op.String())
		writeExpr(sb, v.X)
	case *ast.ParenExpr:
		sb.WriteString("(")
		writeExpr(sb, v.X)
		sb.WriteString(")")
	case *ast.StarExpr:
		sb.WriteString("*")
		writeExpr(sb, v.X)
	case *ast.SliceExpr:
		writeExpr(sb, v.X)
		sb.WriteString("[:]")
	default:
		fmt.Fprintf(sb, "%T", e)
	}
}

func constToValue(cv constant.Value, T types.Type) (Value, bool) {
	switch cv.Kind() {
	case constant.Bool:
		return Scalar(BoolLit(constant.BoolVal(cv)), T), true
	case constant.Int:
		b, ok := new(big.Int).SetString(cv.ExactString(), 10)
		if !ok {
			return Value{}, false
		}
		return Scalar(BigLit(b), T), true
	case constant.String:
		return Scalar(Var(fmt.Sprintf("str!%q", constant.StringVal(cv)), SRef), T), true
	}
	return Value{}, false
}

func (c *Ctx) eval(e ast.Expr) Value {
	x := c.x
	if c.info != nil {
		if tv, ok := c.info.Types[e]; ok && tv.Value != nil {
			if v, ok := constToValue(tv.Value, tv.Type); ok {
				return v
			}
		}
	}
	switch e := e.(type) {
	case *ast.ParenExpr:
		return c.eval(e.X)
	case *ast.BasicLit:
		switch e.Kind {
		case token.INT:
			return Scalar(IntStr(e.Value), nil)
		case token.STRING, token.CHAR:
			return Scalar(Var("str!"+e.Value, SRef), nil)
		}
		panic(engineErr("literal %s not supported", e.Value))
	case *ast.Ident:
		return c.evalIdent(e)
	case *ast.SelectorExpr:
		return c.evalSelector(e)
	case *ast.IndexExpr:
		return c.evalIndex(e)
	case *ast.SliceExpr:
		return c.evalSlice(e)
	case *ast.StarExpr:
		v := c.eval(e.X)
		if v.Kind == KPtr {
			return v
		}
		pT := v.T
		if pT == nil && c.info != nil {
			pT = c.typeOf(e.X)
		}
		if pT == nil {
			panic(engineErr("%s: dereference of a value without Go type", x.pos(e.Pos())))
		}
		if pt, ok := types.Unalias(pT).Underlying().(*types.Pointer); ok && v.Kind == KScalar && v.S.Sort == SRef && x.isBoxed(pt.Elem()) {
			if !c.spec {
				c.oblige("nil", exprText(e.X), Neq(v.S, Nil), e.Pos())
			}
			return c.loadPointee(v.S, pt.Elem())
		}
		panic(engineErr("%s: pointer dereference *%s not supported", x.pos(e.Pos()), exprText(e.X)))
	case *ast.UnaryExpr:
		return c.evalUnary(e)
	case *ast.BinaryExpr:
		return c.evalBinary(e)
	case *ast.CallExpr:
		return c.evalCall(e)
	case *ast.CompositeLit:
		return c.evalCompositeLit(e)
	case *ast.TypeAssertExpr:
		// v.(T): opaque; panics if it fails – treated as an unmodelled partial operation
		v := c.eval(e.X)
		T := c.typeOf(e)
		if tup, ok := T.(*types.Tuple); ok {
			r := x.freshValue("typeassert", tup.At(0).Type())
			okv := x.freshValue("typeassert.ok", tup.At(1).Type())
			if r.Kind == KScalar && r.S.Sort == SRef && v.Kind == KScalar && v.S.Sort == SRef && okv.Kind == KScalar {
				// v.(T) with ok: the same reference, and a nil interface value has no dynamic type
				r.S = Ite(okv.S, v.S, Nil)
				c.st.assume(Implies(okv.S, Neq(v.S, Nil)))
			}
			return Value{Kind: KTuple, T: T, Elems: []Value{r, okv}}
		}
		x.warn("type assertion %s treated as total", exprText(e.X))
		if T != nil && x.kindOf(T) == KScalar && x.scalarSort(T) == SRef && v.Kind == KScalar {
			return Scalar(v.S, T)
		}
		return x.freshValue("typeassert", T)
	case *ast.FuncLit:
		// a function literal is a non-nil value named by its position; its body is remembered for calls
		// through function values (funcvalue.go)
		t := Var("funclit!"+x.pos(e.Pos()), SRef)
		x.addFact(t, Neq(t, Nil))
		if x.funcLits == nil {
			x.funcLits = map[*Term]*ast.FuncLit{}
		}
		if _, seen := x.funcLits[t]; !seen {
			x.funcLits[t] = e
			x.funcLitOrder = append(x.funcLitOrder, t)
		}
		return Scalar(t, c.typeOf(e))
	case *ast.IndexListExpr:
		return c.eval(e.X)
	}
	panic(engineErr("%s: expression form %T not supported", x.pos(e.Pos()), e))
}

func (c *Ctx) evalIdent(id *ast.Ident) Value {
	x := c.x
	switch id.Name {
	case "nil":
		return Scalar(Nil, types.Typ[types.UntypedNil])
	case "true":
		return Scalar(True, types.Typ[types.Bool])
	case "false":
		return Scalar(False, types.Typ[types.Bool])
	case "_":
		return Value{Kind: KNone}
	}
	if c.vars != nil {
		if v, ok := c.vars[id.Name]; ok {
			return v
		}
	}
	if c.info != nil {
		obj := c.info.ObjectOf(id)
		switch o := obj.(type) {
		case *types.Var:
			if key, ok := c.fr.keyOf(o); ok {
				return x.load(c.st, key, o.Type())
			}
			if o.Pkg() != nil && o.Parent() == o.Pkg().Scope() {
				if v, ok := c.pkgVarInit(o); ok {
					return v
				}
				// package-level variable: opaque constant
				x.warn("package variable %s treated as an unknown constant", o.Name())
				return x.symbolic("pkgvar."+o.Pkg().Name()+"."+o.Name(), o.Type(), func(n string, s Sort) *Term { return Var(n, s) })
			}
			panic(engineErr("%s: variable %s not in scope of the symbolic frame", x.pos(id.Pos()), id.Name))
		case *types.Const:
			if v, ok := constToValue(o.Val(), o.Type()); ok {
				return v
			}
		case *types.Nil:
			return Scalar(Nil, types.Typ[types.UntypedNil])
		case *types.Func:
			return Scalar(Var("func."+o.FullName(), SRef), o.Type())
		}
		panic(engineErr("%s: identifier %s (%T) not supported", x.pos(id.Pos()), id.Name, obj))
	}
	// spec mode
	if id.Name == "retvar" && c.fr != nil && c.fr.fi != nil {
		// retvar: the local variable in which the function builds what it returns (robust against renaming it,
		// against `res := x; return res`, and against an early `return nil` / `return none` elsewhere)
		if o := retvarOf(c.fr); o != nil {
			if key, ok := c.fr.keyOf(o); ok {
				if v, ok := c.st.store[key]; ok {
					return v
				}
			}
		}
		panic(engineErr("spec: retvar: no unique local variable that the function builds and returns (anchor lost)"))
	}
	if c.fr != nil {
		if key, ok := c.fr.scope[id.Name]; ok {
			if v, ok := c.st.store[key]; ok {
				return v
			}
		}
	}
	if g, ok := c.pkg.Contracts.GhostIdx[id.Name]; ok {
		return c.ghost(g)
	}
	if o := c.pkg.P.Types.Scope().Lookup(id.Name); o != nil {
		if k, ok := o.(*types.Const); ok {
			if v, ok := constToValue(k.Val(), k.Type()); ok {
				return v
			}
		}
	}
	panic(engineErr("spec: unknown identifier %q", id.Name))
}

// retvarOf: among the local variables named by `return x` statements (following `y := x` aliases), the one that is
// built in the function: made by make(...), appended to, or assigned by index.  Nil if there is no unique one.
func retvarOf(fr *Frame) *types.Var {
	body := fr.fi.Decl.Body
	info := fr.info
	alias := map[*types.Var]*types.Var{}
	built := map[*types.Var]bool{}
	var returned []*types.Var
	objOf := func(e ast.Expr) *types.Var {
		id, ok := unparen(e).(*ast.Ident)
		if !ok {
			return nil
		}
		o, _ := info.ObjectOf(id).(*types.Var)
		return o
	}
	ast.Inspect(body, func(n ast.Node) bool {
		switch s := n.(type) {
		case *ast.FuncLit:
			return false
		case *ast.ReturnStmt:
			if len(s.Results) == 1 {
				if o := objOf(s.Results[0]); o != nil {
					returned = append(returned, o)
				}
			}
		case *ast.AssignStmt:
			for i, l := range s.Lhs {
				if ie, ok := unparen(l).(*ast.IndexExpr); ok {
					if o := objOf(ie.X); o != nil {
						built[o] = true
					}
				}
				if i < len(s.Rhs) && len(s.Lhs) == len(s.Rhs) {
					lo := objOf(l)
					if lo == nil {
						continue
					}
					if ro := objOf(s.Rhs[i]); ro != nil && s.Tok == token.DEFINE {
						alias[lo] = ro
					}
					if ce, ok := unparen(s.Rhs[i]).(*ast.CallExpr); ok {
						if fid, ok := unparen(ce.Fun).(*ast.Ident); ok && (fid.Name == "make" || fid.Name == "append") {
							built[lo] = true
						}
					}
				}
			}
		}
		return true
	})
	seen := map[*types.Var]bool{}
	var cands []*types.Var
	for _, o := range returned {
		for k := 0; k < 4; k++ {
			if a, ok := alias[o]; ok {
				o = a
			}
		}
		if !seen[o] {
			seen[o] = true
			cands = append(cands, o)
		}
	}
	var good []*types.Var
	for _, o := range cands {
		if built[o] {
			good = append(good, o)
		}
	}
	if len(good) == 1 {
		return good[0]
	}
	if len(good) == 0 && len(cands) == 1 {
		return cands[0]
	}
	return nil
}

func (c *Ctx) ghost(g *GhostDecl) Value {
	key := "G:" + g.Name
	if v, ok := c.st.store[key]; ok {
		return v
	}
	v := c.x.lazyGhost(g, c.st.epoch)
	c.st.store[key] = v
	return v
}

func (x *Exec) lazyGhost(g *GhostDecl, ep *Epoch) Value {
	if ep.a != nil {
		va, vb := x.lazyGhost(g, ep.a), x.lazyGhost(g, ep.b)
		return zip2(va, vb, func(p, q *Term) *Term { return Ite(ep.cond, p, q) })
	}
	n := "ghost." + g.Name
	if ep.id != "" {
		n += "@" + ep.id
	}
	return x.ghostShape(g, n, false)
}

// ghostShape builds a ghost value (scalar or sequence) with named or fresh components.
func (x *Exec) ghostShape(g *GhostDecl, name string, fresh bool) Value {
	mk := func(n string, s Sort) *Term {
		if fresh {
			return Fresh(n, s)
		}
		return Var(n, s)
	}
	switch g.Sort {
	case "RefSeq", "IntSeq":
		es := SRef
		if g.Sort == "IntSeq" {
			es = SInt
		}
		v := Value{Kind: KSlice, Arr: mk(name+".arr", ArraySort(SInt, es)), Len: mk(name+".len", SInt), IsNil: False}
		x.addFact(v.Len, Le(IntLit(0), v.Len))
		if g.Elem != "" {
			if o := x.pkg.P.Types.Scope().Lookup(g.Elem); o != nil {
				v.T = types.NewSlice(o.Type())
			}
		}
		return v
	}
	v := Scalar(mk(name, g.Sort), nil)
	v.T = x.ghostType(g)
	return v
}

func (x *Exec) ghostType(g *GhostDecl) types.Type {
	if g.Elem == "" || g.Sort != SRef {
		return nil
	}
	if o := x.pkg.P.Types.Scope().Lookup(g.Elem); o != nil {
		return o.Type()
	}
	return nil
}

// ---- selectors -----------------------------------------------------------

// fieldStep selects field f (declared in struct type owner) of cur.
func (c *Ctx) fieldStep(cur Value, f *types.Var, ownerName string) Value {
	x := c.x
	switch cur.Kind {
	case KPtr:
		path := cur.Path + f.Name()
		if a, ok := c.pkgContractsFor(f).Aliases[path]; ok {
			return Value{Kind: KPtr, T: f.Type(), Path: a}
		}
		switch x.kindOf(f.Type()) {
		case KPtr:
			p, _ := x.staticPath(f.Type())
			return Value{Kind: KPtr, T: f.Type(), Path: p}
		case KStruct:
			// by-value struct stored inside the singleton: flatten
			_, s, _ := x.isRepoStruct(f.Type())
			v := Value{Kind: KStruct, T: f.Type(), Fields: map[string]Value{}}
			sub := Value{Kind: KPtr, Path: path + "."}
			for i := 0; i < s.NumFields(); i++ {
				v.Fields[s.Field(i).Name()] = c.fieldStep(sub, s.Field(i), "")
			}
			return v
		}
		return x.load(c.st, "S:"+path, f.Type())
	case KStruct:
		v, ok := cur.Fields[f.Name()]
		if !ok {
			panic(engineErr("struct value has no field %s", f.Name()))
		}
		return v
	case KScalar:
		if cur.S.Sort != SRef {
			panic(engineErr("field %s of non-reference value", f.Name()))
		}
		if strings.HasPrefix(cur.Path, "H:") {
			// interior pointer: cur.S is the enclosing object, cur.Path the by-value struct field it points into
			h := x.load(c.st, cur.Path, pointee(cur.T))
			v := h.Fields[f.Name()].mapTerms(func(t *Term) *Term { return Select(t, cur.S) })
			v.T = f.Type()
			x.valueFacts(v)
			return v
		}
		if ownerName == "" {
			ownerName = typeName(cur.T)
		}
		key := "H:" + ownerName + "." + f.Name()
		h := x.load(c.st, key, f.Type())
		v := h.mapTerms(func(t *Term) *Term { return Select(t, cur.S) })
		v.T = f.Type()
		x.valueFacts(v)
		return v
	}
	panic(engineErr("field %s of value kind %d", f.Name(), cur.Kind))
}

func (c *Ctx) pkgContractsFor(f *types.Var) *Contracts {
	if f.Pkg() != nil {
		return c.x.contractsOf(f.Pkg().Path())
	}
	return c.x.contracts()
}

// valueFacts records the standard facts (ranges, non-negative lengths) of a value read from memory.
func (x *Exec) valueFacts(v Value) {
	switch v.Kind {
	case KScalar:
		if v.T != nil {
			x.rangeFact(v.S, v.T)
		}
	case KSlice:
		if !v.Len.IsLit() {
			x.addFact(v.Len, And(Le(IntLit(0), v.Len), Le(v.Len, IntStr("4611686018427387904"))))
			x.noteRange(v.Len, big.NewInt(0), new(big.Int).Lsh(big.NewInt(1), 62))
		}
		if v.IsNil != True && v.IsNil != False {
			x.addFact(v.IsNil, Implies(v.IsNil, Eq(v.Len, IntLit(0))))
		}
	case KMap:
		if !v.Size.IsLit() {
			x.addFact(v.Size, Le(IntLit(0), v.Size))
		}
		if v.IsNil != True && v.IsNil != False {
			x.addFact(v.IsNil, Implies(v.IsNil, Eq(v.Size, IntLit(0))))
		}
	case KStruct:
		for _, f := range v.Fields {
			x.valueFacts(f)
		}
	}
}

// walkPath applies a selection index path (embedded fields) to a value.
func (c *Ctx) walkPath(cur Value, T types.Type, index []int) (Value, types.Type) {
	for _, i := range index {
		T = types.Unalias(T)
		if p, ok := T.Underlying().(*types.Pointer); ok {
			T = p.Elem()
		}
		owner := typeName(T)
		if n := namedOf(T); n != nil && n.Obj().Pkg() != nil && c.x.w.Pkgs[n.Obj().Pkg().Path()] == nil {
			owner = n.Obj().Pkg().Name() + "." + owner // external struct: qualified heap key
		}
		s, ok := types.Unalias(T).Underlying().(*types.Struct)
		if !ok {
			panic(engineErr("selector path through non-struct %s", T))
		}
		f := s.Field(i)
		cur = c.fieldStep(cur, f, owner)
		T = f.Type()
	}
	return cur, T
}

func (c *Ctx) evalSelector(e *ast.SelectorExpr) Value {
	x := c.x
	if c.info != nil {
		if sel, ok := c.info.Selections[e]; ok {
			switch sel.Kind() {
			case types.FieldVal:
				base := c.eval(e.X)
				v, _ := c.walkPath(base, sel.Recv(), sel.Index())
				return v
			default:
				panic(engineErr("%s: method value %s not supported", x.pos(e.Pos()), exprText(e)))
			}
		}
		// qualified identifier
		obj := c.info.Uses[e.Sel]
		switch o := obj.(type) {
		case *types.Const:
			if v, ok := constToValue(o.Val(), o.Type()); ok {
				return v
			}
		case *types.Var:
			x.warn("package variable %s.%s treated as an unknown constant", o.Pkg().Name(), o.Name())
			return x.symbolic("pkgvar."+o.Pkg().Name()+"."+o.Name(), o.Type(), func(n string, s Sort) *Term { return Var(n, s) })
		case *types.Func:
			return Scalar(Var("func."+o.FullName(), SRef), o.Type())
		}
		panic(engineErr("%s: selector %s not supported", x.pos(e.Pos()), exprText(e)))
	}
	// spec mode: a constant of an imported package
	if id, ok := e.X.(*ast.Ident); ok {
		if _, isVar := c.vars[id.Name]; !isVar {
			for _, imp := range c.pkg.P.Types.Imports() {
				if imp.Name() == id.Name {
					if cn, ok := imp.Scope().Lookup(e.Sel.Name).(*types.Const); ok {
						if v, ok := constToValue(cn.Val(), cn.Type()); ok {
							return v
						}
					}
					panic(engineErr("spec: %s is not a constant", exprText(e)))
				}
			}
		}
	}
	// spec mode: derive from the value's type
	base := c.eval(e.X)
	if base.T == nil {
		panic(engineErr("spec: selector %s on a value without Go type", exprText(e)))
	}
	obj, index, _ := types.LookupFieldOrMethod(base.T, true, c.pkg.P.Types, e.Sel.Name)
	f, ok := obj.(*types.Var)
	if !ok {
		panic(engineErr("spec: %s is not a field", exprText(e)))
	}
	_ = f
	v, _ := c.walkPath(base, base.T, index)
	return v
}

// ---- indexing -------------------------------------------------------------

func (c *Ctx) evalIndex(e *ast.IndexExpr) Value {
	x := c.x
	// generic instantiation f[T]
	if c.info != nil {
		if tv, ok := c.info.Types[e.Index]; ok && tv.IsType() {
			return c.eval(e.X)
		}
	}
	base := c.eval(e.X)
	idx := c.eval(e.Index)
	switch base.Kind {
	case KSlice:
		c.oblige("bounds", exprText(e), And(Le(IntLit(0), idx.S), Lt(idx.S, base.Len)), e.Pos())
		if et := elemTypeOrNil(base.T); et != nil && x.kindOf(et) == KSlice {
			// a slice of slices: the elements are references to boxed slice values
			return c.loadPointee(Select(base.Arr, idx.S), et)
		}
		v := Scalar(Select(base.Arr, idx.S), elemTypeOrNil(base.T))
		x.valueFacts(v)
		return v
	case KMap:
		v := Scalar(Ite(Select(base.Has, idx.S), Select(base.Arr, idx.S), zeroOfSort(sortOfArrElem(base.Arr))), elemTypeOrNil(base.T))
		x.valueFacts(v)
		return v
	}
	panic(engineErr("%s: index of %s not supported", x.pos(e.Pos()), exprText(e.X)))
}

// opaqueBytes: the bytes of a value of an opaque named array type ([n]byte underneath).
func (x *Exec) opaqueBytes(v *Term, T types.Type) (Value, bool) {
	at, ok := types.Unalias(T).Underlying().(*types.Array)
	if !ok {
		return Value{}, false
	}
	bt, ok := at.Elem().Underlying().(*types.Basic)
	if !ok || bt.Kind() != types.Uint8 {
		return Value{}, false
	}
	arr := App("opq.bytes", ArraySort(SInt, SInt), v)
	return Value{Kind: KSlice, T: types.NewSlice(at.Elem()), Arr: arr, Len: IntLit(at.Len()), IsNil: False}, true
}

func sortOfArrElem(a *Term) Sort { _, e := a.Sort.ArrayParts(); return e }

func elemTypeOrNil(t types.Type) types.Type {
	if t == nil {
		return nil
	}
	return elemType(t)
}

func (c *Ctx) evalSlice(e *ast.SliceExpr) Value {
	base := c.eval(e.X)
	if base.Kind == KScalar && c.x.isOpaqueNamed(c.typeOf(e.X)) {
		// x[:] of an opaque array value: its bytes, an uninterpreted function of the value
		if ob, ok := c.x.opaqueBytes(base.S, c.typeOf(e.X)); ok {
			base = ob
		}
	}
	if base.Kind != KSlice {
		panic(engineErr("%s: slicing of %s not supported", c.x.pos(e.Pos()), exprText(e.X)))
	}
	lo := IntLit(0)
	hi := base.Len
	if e.Low != nil {
		lo = c.eval(e.Low).S
	}
	if e.High != nil {
		hi = c.eval(e.High).S
	}
	// capacity is not modelled: high bound is checked against len (stricter than Go's cap check)
	c.oblige("slice", exprText(e.X), And(Le(IntLit(0), lo), Le(lo, hi), Le(hi, base.Len)), e.Pos())
	r := base
	if lo.IsLit() && lo.Name == "0" {
		r.Len = hi
		return r
	}
	// shifted view: arr'[i] = arr[i+lo]
	na := Fresh("subslice", base.Arr.Sort)
	i := BVar("i!sub", SInt)
	c.x.addFact(na, Forall([]*Term{i}, Eq(Select(na, i), Select(base.Arr, Add(i, lo)))))
	r.Arr = na
	r.Len = Sub(hi, lo)
	return r
}

// ---- unary / binary -----------------------------------------------------

func (c *Ctx) evalUnary(e *ast.UnaryExpr) Value {
	x := c.x
	switch e.Op {
	case token.NOT:
		v := c.eval(e.X)
		return Scalar(Not(v.S), v.T)
	case token.SUB:
		v := c.eval(e.X)
		r := Neg(v.S)
		c.checkArith(r, c.typeOf(e), e, "-")
		return Scalar(r, v.T)
	case token.ADD:
		return c.eval(e.X)
	case token.AND:
		// address-of
		if cl, ok := e.X.(*ast.CompositeLit); ok {
			sv := c.evalCompositeLit(cl)
			return c.alloc(sv, c.typeOf(e))
		}
		if id, ok := unparen(e.X).(*ast.Ident); ok && !c.spec {
			if obj, _ := c.info.ObjectOf(id).(*types.Var); obj != nil && !x.isBoxed(obj.Type()) {
				if _, _, isStruct := x.isRepoStruct(obj.Type()); isStruct {
					if _, local := c.fr.keyOf(obj); local {
						// &local of a struct variable: a fresh object holding the current value; the variable must not be written afterwards
						if c.fr.addrTaken == nil {
							c.fr.addrTaken = map[*types.Var]bool{}
						}
						c.fr.addrTaken[obj] = true
						if sv := c.eval(id); sv.Kind == KStruct {
							return c.alloc(sv, c.typeOf(e))
						}
					}
				}
			}
			if obj, _ := c.info.ObjectOf(id).(*types.Var); obj != nil && x.isBoxed(obj.Type()) {
				if _, local := c.fr.keyOf(obj); local {
					// &local: a fresh box holding the current value; the variable must not be written afterwards
					if c.fr.addrTaken == nil {
						c.fr.addrTaken = map[*types.Var]bool{}
					}
					c.fr.addrTaken[obj] = true
					return c.allocBox(obj.Type(), c.eval(id), c.typeOf(e))
				}
			}
		}
		if ie, ok := unparen(e.X).(*ast.IndexExpr); ok {
			// &s[i] for a slice of structs: the elements are objects already, the address is the element's reference
			if bt := c.typeOf(ie.X); bt != nil && x.kindOf(bt) == KSlice {
				if _, _, isStruct := x.isRepoStruct(elemType(bt)); isStruct {
					base := c.eval(ie.X)
					idx := c.eval(ie.Index)
					c.oblige("bounds", exprText(ie), And(Le(IntLit(0), idx.S), Lt(idx.S, base.Len)), e.Pos())
					return Scalar(Select(base.Arr, idx.S), c.typeOf(e))
				}
			}
		}
		v := c.eval(e.X)
		if v.Kind == KPtr {
			return v
		}
		panic(engineErr("%s: address-of %s not supported", x.pos(e.Pos()), exprText(e.X)))
	case token.ARROW:
		return c.chanRecv(e)
	}
	panic(engineErr("%s: unary %s not supported", x.pos(e.Pos()), e.Op))
}

// alloc stores a struct value in a fresh heap object.
func (c *Ctx) alloc(sv Value, ptrT types.Type) Value {
	x := c.x
	r := Fresh("new", SRef)
	x.addFact(r, Neq(r, Nil))
	x.freshRefs = append(x.freshRefs, r)
	c.freshFromAll(r)
	if sv.Kind == KStruct {
		c.storeObject(r, sv)
	}
	return Scalar(r, ptrT)
}

func liftLike(h, v Value) Value { v.T = h.T; return v }

// boxElem: struct values stored in a slice are kept as references to a copy of the value.
func (c *Ctx) boxElem(v Value, et types.Type) Value {
	if v.Kind == KStruct && et != nil {
		return c.alloc(v, et)
	}
	if v.Kind == KSlice && et != nil && c.x.kindOf(et) == KSlice {
		return c.allocBox(et, v, et)
	}
	return v
}

func pointee(T types.Type) types.Type {
	if p, ok := types.Unalias(T).Underlying().(*types.Pointer); ok {
		return p.Elem()
	}
	return T
}

// interiorPtr: &q.f where q is a heap object and f a by-value struct field of it.
func (c *Ctx) interiorPtr(e ast.Expr) (Value, bool) {
	se, ok := unparen(e).(*ast.SelectorExpr)
	if !ok || c.info == nil {
		return Value{}, false
	}
	sel, ok := c.info.Selections[se]
	if !ok || sel.Kind() != types.FieldVal {
		return Value{}, false
	}
	base := c.eval(se.X)
	idx := sel.Index()
	cont, contT := c.walkPath(base, sel.Recv(), idx[:len(idx)-1])
	contT = pointee(contT)
	if cont.Kind != KScalar || cont.S.Sort != SRef || cont.Path != "" {
		return Value{}, false
	}
	st, ok := types.Unalias(contT).Underlying().(*types.Struct)
	if !ok {
		return Value{}, false
	}
	f := st.Field(idx[len(idx)-1])
	return Value{Kind: KScalar, S: cont.S, T: types.NewPointer(f.Type()), Path: "H:" + typeName(contT) + "." + f.Name()}, true
}

func isUnsigned(T types.Type) bool {
	if T == nil {
		return false
	}
	b, ok := types.Unalias(T).Underlying().(*types.Basic)
	return ok && b.Info()&types.IsUnsigned != 0
}

// checkArith emits the overflow obligation for a code-level arithmetic result.
func (c *Ctx) checkArith(r *Term, T types.Type, e ast.Expr, op string) {
	if c.spec || T == nil {
		return
	}
	if _, _, ok := intRange(T); !ok {
		return
	}
	if c.wraps(e) {
		return
	}
	if cond := c.wrapsIf(e); cond != nil {
		c.oblige("overflow", exprText(e), Implies(cond, inRange(r, T)), e.Pos())
		return
	}
	c.oblige("overflow", exprText(e), inRange(r, T), e.Pos())
}

// wrapsIf: the overflow check of this operator is conditional on an assumption (e.g. A-VIEW).
func (c *Ctx) wrapsIf(e ast.Expr) *Term {
	txt := exprText(e)
	for _, fr := range c.x.frames {
		if fr.fi != nil && fr.fi.Spec != nil {
			if ce, ok := fr.fi.Spec.WrapsIf[txt]; ok {
				return c.specEval(ce, c.st, nil, nil)
			}
			if ce, ok := fr.fi.Spec.WrapsIf["*"]; ok {
				return c.specEval(ce, c.st, nil, nil)
			}
		}
	}
	return nil
}

func (c *Ctx) wraps(e ast.Expr) bool {
	txt := exprText(e)
	for _, fr := range c.x.frames {
		if fr.fi != nil && fr.fi.Spec != nil && (fr.fi.Spec.Wraps[txt] || fr.fi.Spec.Wraps["*"]) {
			return true
		}
	}
	return false
}

// wrapsText: the contract of a function on the stack exempts the operation with this text (or every operation).
func (c *Ctx) wrapsText(txt string) bool {
	for _, fr := range c.x.frames {
		if fr.fi != nil && fr.fi.Spec != nil && (fr.fi.Spec.Wraps[txt] || fr.fi.Spec.Wraps["*"]) {
			return true
		}
	}
	return false
}

// wrap reduces r into the range of T (two's complement).
// shiftAmount: e is, up to parentheses and integer conversions, a left shift by a constant k.
func (c *Ctx) shiftAmount(e ast.Expr) (int64, bool) {
	for {
		e = unparen(e)
		if call, ok := e.(*ast.CallExpr); ok && len(call.Args) == 1 && c.info != nil {
			if tv, ok := c.info.Types[call.Fun]; ok && tv.IsType() {
				// a conversion to an integer type keeps the low k bits zero
				if _, _, isInt := intRange(tv.Type); isInt {
					e = call.Args[0]
					continue
				}
			}
		}
		break
	}
	be, ok := e.(*ast.BinaryExpr)
	if !ok || be.Op != token.SHL || c.info == nil {
		return 0, false
	}
	tv, ok := c.info.Types[be.Y]
	if !ok || tv.Value == nil {
		return 0, false
	}
	k, exact := constant.Int64Val(constant.ToInt(tv.Value))
	if !exact || k < 0 || k > 63 {
		return 0, false
	}
	return k, true
}

// fitsBits: e is, up to conversions to wider unsigned types, an expression of an unsigned type of at most k bits.
func (c *Ctx) fitsBits(e ast.Expr, k int64) bool {
	for {
		e = unparen(e)
		if c.info == nil {
			return false
		}
		T := c.typeOf(e)
		if lo, hi, ok := intRange(T); ok && lo.Sign() == 0 && int64(hi.BitLen()) <= k {
			return true
		}
		if call, ok := e.(*ast.CallExpr); ok && len(call.Args) == 1 {
			if tv, ok := c.info.Types[call.Fun]; ok && tv.IsType() {
				e = call.Args[0]
				continue
			}
		}
		return false
	}
}

func wrapTo(r *Term, T types.Type) *Term {
	lo, hi, ok := intRange(T)
	if !ok {
		return r
	}
	size := new(big.Int).Add(new(big.Int).Sub(hi, lo), big.NewInt(1))
	if lo.Sign() == 0 {
		return EMod(r, BigLit(size))
	}
	// signed: ((r - lo) mod size) + lo
	return Add(EMod(Sub(r, BigLit(lo)), BigLit(size)), BigLit(lo))
}

func pow2Term(s *Term) *Term {
	if s.IsLit() {
		n := s.Big().Int64()
		if n >= 0 && n < 200 {
			return BigLit(new(big.Int).Lsh(big.NewInt(1), uint(n)))
		}
	}
	// ite table 0..63, beyond: 2^64
	r := BigLit(new(big.Int).Lsh(big.NewInt(1), 64))
	for i := 63; i >= 0; i-- {
		r = Ite(Eq(s, IntLit(int64(i))), BigLit(new(big.Int).Lsh(big.NewInt(1), uint(i))), r)
	}
	return r
}

func (c *Ctx) evalBinary(e *ast.BinaryExpr) Value {
	x := c.x
	switch e.Op {
	case token.LAND, token.LOR:
		l := c.eval(e.X)
		if c.spec {
			r := c.eval(e.Y)
			if e.Op == token.LAND {
				return Scalar(And(l.S, r.S), l.T)
			}
			return Scalar(Or(l.S, r.S), l.T)
		}
		g := l.S
		if e.Op == token.LOR {
			g = Not(l.S)
		}
		// evaluate the right operand under the guard, merging afterwards
		st2 := c.st.Clone()
		st2.assume(g)
		r := c.withState(st2).eval(e.Y)
		stSkip := c.st.Clone()
		stSkip.assume(Not(g))
		m := x.merge(st2, stSkip)
		*c.st = *m
		if e.Op == token.LAND {
			return Scalar(And(l.S, r.S), l.T)
		}
		return Scalar(Or(l.S, r.S), l.T)
	}
	l := c.eval(e.X)
	r := c.eval(e.Y)
	T := c.typeOf(e)
	switch e.Op {
	case token.EQL, token.NEQ:
		var t *Term
		switch {
		case l.Kind == KScalar && r.Kind == KScalar:
			t = Eq(l.S, r.S)
		case l.Kind == KSlice && r.Kind == KScalar: // slice == nil
			t = l.IsNil
		case l.Kind == KMap && r.Kind == KScalar:
			t = l.IsNil
		case r.Kind == KSlice && l.Kind == KScalar:
			t = r.IsNil
		case l.Kind == KPtr && r.Kind == KScalar:
			t = False // static singleton is never nil
		case c.spec:
			t = valueEq(l, r)
		default:
			t = valueEq(l, r)
		}
		if e.Op == token.NEQ {
			t = Not(t)
		}
		return Scalar(t, types.Typ[types.Bool])
	case token.LSS:
		return Scalar(Lt(l.S, r.S), types.Typ[types.Bool])
	case token.LEQ:
		return Scalar(Le(l.S, r.S), types.Typ[types.Bool])
	case token.GTR:
		return Scalar(Gt(l.S, r.S), types.Typ[types.Bool])
	case token.GEQ:
		return Scalar(Ge(l.S, r.S), types.Typ[types.Bool])
	}
	if T == nil {
		T = l.T
		if T == nil {
			T = r.T
		}
	}
	res := c.arith(e.Op, l.S, r.S, T, e)
	return Scalar(res, T)
}

func (c *Ctx) arith(op token.Token, l, r *Term, T types.Type, e ast.Expr) *Term {
	var res *Term
	switch op {
	case token.ADD:
		if l.Sort == SRef { // string concatenation
			return Fresh("strcat", SRef)
		}
		res = Add(l, r)
	case token.SUB:
		res = Sub(l, r)
	case token.MUL:
		res = Mul(l, r)
	case token.QUO:
		c.oblige("div0", exprText(e), Neq(r, IntLit(0)), e.Pos())
		res = TDiv(l, r)
	case token.REM:
		c.oblige("div0", exprText(e), Neq(r, IntLit(0)), e.Pos())
		return TRem(l, r)
	case token.SHL:
		if !c.spec {
			c.oblige("shift", exprText(e), Ge(r, IntLit(0)), e.Pos())
		}
		res = Mul(l, pow2Term(r))
	case token.SHR:
		if !c.spec {
			c.oblige("shift", exprText(e), Ge(r, IntLit(0)), e.Pos())
		}
		return EDiv(l, pow2Term(r)) // floor division = arithmetic shift
	case token.AND, token.OR, token.XOR, token.AND_NOT:
		if c.spec {
			panic(engineErr("bit operation in spec"))
		}
		if be, ok := e.(*ast.BinaryExpr); ok && (op == token.OR || op == token.XOR) {
			// (x << k) | y with y < 2^k: the operands have no bit in common, the result is their sum
			if k, ok := c.shiftAmount(be.X); ok && c.fitsBits(be.Y, k) {
				return Add(l, r)
			}
			if k, ok := c.shiftAmount(be.Y); ok && c.fitsBits(be.X, k) {
				return Add(l, r)
			}
		}
		c.x.warn("bit operation %s treated as uninterpreted", exprText(e))
		f := App("bitop."+op.String(), SInt, l, r)
		c.x.rangeFact(f, T)
		return f
	default:
		panic(engineErr("binary operator %s not supported", op))
	}
	if c.spec {
		return res
	}
	if c.wraps(e) {
		return wrapTo(res, T)
	}
	c.checkArith(res, T, e, op.String())
	// Go integer arithmetic wraps around; the value is modelled faithfully even where
	// the overflow obligation (a separate proof obligation) fails
	if lo, hi, ok := intRange(T); ok && !res.IsLit() {
		if bl, bh, known := c.x.bounds(res, 0); known && bl.Cmp(lo) >= 0 && bh.Cmp(hi) <= 0 {
			return res // cannot leave the type's range: no wrap-around case
		}
		return Ite(inRange(res, T), res, wrapTo(res, T))
	}
	return res
}

// ---- composite literals ----------------------------------------------------

func (c *Ctx) evalCompositeLit(e *ast.CompositeLit) Value {
	x := c.x
	T := c.typeOf(e)
	if x.isOpaqueNamed(T) {
		// a literal of an opaque value type: its zero value, or a constant named by the literal's text
		if len(e.Elts) == 0 {
			return x.zeroValue(T)
		}
		c.evalArgs(e.Elts)
		return Scalar(Var("lit!"+exprText(e), SRef), T)
	}
	if T == nil {
		panic(engineErr("composite literal without type"))
	}
	if isTimeTime(T) {
		return Scalar(timeZero(), T)
	}
	if _, s, ok := x.isRepoStruct(T); ok {
		v := x.zeroValueStruct(T, s)
		for i, el := range e.Elts {
			if kv, ok := el.(*ast.KeyValueExpr); ok {
				name := kv.Key.(*ast.Ident).Name
				v.Fields[name] = c.coerce(c.eval(kv.Value), fieldType(s, name))
			} else {
				v.Fields[s.Field(i).Name()] = c.coerce(c.eval(el), s.Field(i).Type())
			}
		}
		return v
	}
	switch u := types.Unalias(T).Underlying().(type) {
	case *types.Slice, *types.Array:
		es := x.elemSort(T)
		arr := ConstArray(ArraySort(SInt, es), zeroOfSort(es))
		n := int64(0)
		next := int64(0)
		for _, el := range e.Elts {
			if kv, ok := el.(*ast.KeyValueExpr); ok {
				tv, ok := c.info.Types[kv.Key]
				if !ok || tv.Value == nil {
					panic(engineErr("%s: slice literal with a non-constant key", x.pos(kv.Pos())))
				}
				k, exact := constant.Int64Val(constant.ToInt(tv.Value))
				if !exact {
					panic(engineErr("%s: slice literal key out of range", x.pos(kv.Pos())))
				}
				next = k
				el = kv.Value
			}
			arr = Store(arr, IntLit(next), c.boxElem(c.coerce(c.eval(el), elemType(T)), elemType(T)).S)
			next++
			if next > n {
				n = next
			}
		}
		if a, ok := u.(*types.Array); ok {
			n = a.Len()
		}
		return Value{Kind: KSlice, T: T, Arr: arr, Len: IntLit(n), IsNil: False}
	case *types.Map:
		v := x.zeroValue(T)
		v.IsNil = False
		for _, el := range e.Elts {
			kv := el.(*ast.KeyValueExpr)
			k := c.eval(kv.Key).S
			v.Arr = Store(v.Arr, k, c.eval(kv.Value).S)
			v.Has = Store(v.Has, k, True)
		}
		if len(e.Elts) > 0 {
			v.Size = Fresh("maplit.size", SInt)
			x.addFact(v.Size, And(Le(IntLit(1), v.Size), Le(v.Size, IntLit(int64(len(e.Elts))))))
		}
		return v
	case *types.Struct:
		// external struct (opaque)
		for _, el := range e.Elts {
			if kv, ok := el.(*ast.KeyValueExpr); ok {
				c.eval(kv.Value)
			} else {
				c.eval(el)
			}
		}
		return Scalar(Fresh("opaque."+typeName(T), SRef), T)
	}
	panic(engineErr("%s: composite literal of %s not supported", x.pos(e.Pos()), T))
}

func fieldType(s *types.Struct, name string) types.Type {
	for i := 0; i < s.NumFields(); i++ {
		if s.Field(i).Name() == name {
			return s.Field(i).Type()
		}
	}
	panic(engineErr("no field %s", name))
}

func (x *Exec) zeroValueStruct(T types.Type, s *types.Struct) Value {
	v := Value{Kind: KStruct, T: T, Fields: map[string]Value{}}
	for i := 0; i < s.NumFields(); i++ {
		f := s.Field(i)
		if x.kindOf(f.Type()) == KPtr {
			p, _ := x.staticPath(f.Type())
			v.Fields[f.Name()] = Value{Kind: KPtr, T: f.Type(), Path: p}
			continue
		}
		v.Fields[f.Name()] = x.zeroValue(f.Type())
	}
	return v
}

// coerce adapts a value to a destination type (untyped nil to slice/map, etc.).
func (c *Ctx) coerce(v Value, T types.Type) Value {
	if T == nil {
		return v
	}
	x := c.x
	k := x.kindOf(T)
	if v.Kind == KScalar && v.S == Nil && (k == KSlice || k == KMap) {
		return x.zeroValue(T)
	}
	if v.Kind == KPtr && k == KScalar {
		// static reference passed where a plain reference is expected (e.g. interface argument)
		return Scalar(Var("&static."+v.Path, SRef), T)
	}
	if v.Kind == KStruct && (k == KScalar || k == KStruct) && c.st != nil {
		if k == KStruct {
			return v
		}
		// struct boxed into an interface: a reference to a copy of the value
		return c.alloc(v, T)
	}
	if v.Kind == KScalar && k == KScalar && v.S.Sort != x.scalarSort(T) {
		if x.scalarSort(T) == SRef {
			// integer or bool boxed into an interface
			return Scalar(App("box."+string(v.S.Sort), SRef, v.S), T)
		}
		panic(engineErr("cannot coerce %s to %s", v, T))
	}
	if v.Kind == k || v.Kind == KNone {
		v.T = T
	}
	return v
}
