package main

// Replay of counterexamples against the real code.  The solver's model for the inputs of a
// function is turned into an in-package Go test (injected with `go test -overlay`, nothing is
// written into the repository), the real function is run on those inputs and the failed
// contract clause is evaluated on the OBSERVED outputs.  Only functions whose inputs are scalars,
// slice lengths and a clock reading are replayed this way (tier 1: the arithmetic core of
// context.go and the timer arithmetic); for the others the replay file carries the model only.

import (
	"encoding/json"
	"fmt"
	"go/types"
	"math/big"
	"os"
	"os/exec"
	"path/filepath"
	"regexp"
	"strings"
	"time"
)

var getValueRe = regexp.MustCompile(`\(\s*(\|[^|]+\||[^\s()]+)\s+(\(-\s*\d+\)|-?\d+|true|false)\s*\)`)

// parseModel reads z3/cvc5 get-value output "((name val) ...)".
func parseModel(model string) map[string]string {
	out := map[string]string{}
	for _, m := range getValueRe.FindAllStringSubmatch(model, -1) {
		name := strings.Trim(m[1], "|")
		val := m[2]
		if strings.HasPrefix(val, "(") {
			val = "-" + strings.TrimSpace(strings.Trim(val, "()-"))
		}
		out[name] = val
	}
	return out
}

type replaySpec struct {
	setup  func(m map[string]string) (string, bool) // Go statements building `c` and calling the function; prints GOVC-RESULT lines
	result []string                                 // names printed
}

func mval(m map[string]string, k, def string) string {
	if v, ok := m[k]; ok {
		return v
	}
	return def
}

func inU(v string, bits uint) bool {
	b, ok := new(big.Int).SetString(v, 10)
	if !ok || b.Sign() < 0 {
		return false
	}
	return b.BitLen() <= int(bits)
}

const replayPrelude = `package dbft

import (
	"fmt"
	"testing"
	"time"
)

type govcHash [4]byte

func (h govcHash) String() string { return fmt.Sprintf("%x", h[:]) }

type govcTimer struct{ now int64 }

func (t govcTimer) Now() time.Time                                 { return time.Unix(0, t.now) }
func (t govcTimer) Reset(height uint32, view byte, d time.Duration) {}
func (t govcTimer) Extend(d time.Duration)                         {}
func (t govcTimer) Height() uint32                                 { return 0 }
func (t govcTimer) View() byte                                     { return 0 }
func (t govcTimer) C() <-chan time.Time                            { return nil }

type govcTx struct{ h govcHash }

func (t govcTx) Hash() govcHash { return t.h }

func govcContext(n int, height uint32, view byte, incr, last uint64, now int64, pool int, ext bool) *Context[govcHash] {
	cfg := &Config[govcHash]{TimestampIncrement: incr, Timer: govcTimer{now}}
	cfg.GetVerified = func() []Transaction[govcHash] {
		txx := make([]Transaction[govcHash], pool)
		for i := range txx {
			var h govcHash
			h[0], h[1] = byte(i), byte(i>>8)
			txx[i] = govcTx{h}
		}
		return txx
	}
	if ext {
		cfg.MaxTimePerBlock = func() time.Duration { return time.Hour }
	}
	c := &Context[govcHash]{Config: cfg}
	c.Validators = make([]PublicKey, n)
	c.BlockIndex = height
	c.ViewNumber = view
	c.lastBlockTimestamp = last
	c.Transactions = map[govcHash]Transaction[govcHash]{}
	return c
}
`

// replayObligation tries to confirm a failed obligation on the real code.
func replayObligation(w *World, o *Obligation, repo string) *ReplayResult {
	if o.Pkg != "dbft" || o.Verdict != VSat || o.Model == "" {
		return nil
	}
	m := parseModel(o.Model)
	n := mval(m, "Context.Validators.len", "1")
	height := mval(m, "Context.BlockIndex", "0")
	incr := mval(m, "Config.TimestampIncrement", "1000000")
	last := mval(m, "Context.lastBlockTimestamp", "0")
	if !inU(n, 16) || n == "0" || !inU(height, 32) || !inU(incr, 63) || incr == "0" || !inU(last, 63) {
		return &ReplayResult{How: "model values outside the replayable range (validator count 1..65535, machine integers)"}
	}
	var body, what string
	switch o.Func {
	case "(*Context).GetPrimaryIndex":
		v := mval(m, "in.viewNumber", "0")
		if !inU(v, 8) {
			return nil
		}
		body = fmt.Sprintf("c := govcContext(%s, %s, 0, 1, 0, 0, 0, false)\n\tr := c.GetPrimaryIndex(%s)\n\tfmt.Printf(\"GOVC-RESULT result=%%d\\n\", r)", n, height, v)
		what = fmt.Sprintf("GetPrimaryIndex(view=%s) with BlockIndex=%s, %s validators", v, height, n)
	case "(*Context).F", "(*Context).M", "(*Context).N":
		fn := strings.TrimPrefix(o.Func, "(*Context).")
		body = fmt.Sprintf("c := govcContext(%s, %s, 0, 1, 0, 0, 0, false)\n\tr := c.%s()\n\tfmt.Printf(\"GOVC-RESULT result=%%d\\n\", r)", n, height, fn)
		what = fmt.Sprintf("%s() with %s validators", fn, n)
	case "(*Context).Fill", "(*Context).getTimestamp":
		now := mval(m, "call.Timer.Now!1", mval(m, "ghost.gClock", "0"))
		for k, v := range m {
			if strings.HasPrefix(k, "call.Timer.Now!") {
				now = v
			}
		}
		if !inU(now, 62) {
			return nil
		}
		pool := mval(m, "call.Config.GetVerified!1.len", "0")
		for k, v := range m {
			if strings.HasPrefix(k, "call.Config.GetVerified!") && strings.HasSuffix(k, ".len") {
				pool = v
			}
		}
		if !inU(pool, 10) {
			pool = "3"
		}
		force := mval(m, "in.force", "true")
		ext := "false"
		if o.Func == "(*Context).Fill" {
			body = fmt.Sprintf("c := govcContext(%s, %s, 0, %s, %s, %s, %s, %s)\n\tok := c.Fill(%s)\n\tfmt.Printf(\"GOVC-RESULT result=%%v timestamp=%%d hashes=%%d\\n\", ok, c.Timestamp, len(c.TransactionHashes))", n, height, incr, last, now, pool, ext, force)
		} else {
			body = fmt.Sprintf("c := govcContext(%s, %s, 0, %s, %s, %s, %s, %s)\n\tr := c.getTimestamp()\n\tfmt.Printf(\"GOVC-RESULT result=%%d\\n\", r)", n, height, incr, last, now, pool, ext)
		}
		what = fmt.Sprintf("%s with previous timestamp %s, increment %s, clock %s, pool of %s", o.Func, last, incr, now, pool)
		m["$now"] = now
		m["$pool"] = pool
	case "(*Context).isAntiMEVExtensionEnabled":
		eh := mval(m, "Config.AntiMEVExtensionEnablingHeight", "-1")
		if b, ok := new(big.Int).SetString(eh, 10); !ok || b.BitLen() > 62 {
			return nil
		}
		body = fmt.Sprintf("c := govcContext(%s, %s, 0, 1, 0, 0, 0, false)\n\tc.Config.AntiMEVExtensionEnablingHeight = %s\n%s\tr := c.isAntiMEVExtensionEnabled()\n\tfmt.Printf(\"GOVC-RESULT result=%%v\\n\", r)", n, height, eh, contextFieldAssignments(w, m))
		what = fmt.Sprintf("isAntiMEVExtensionEnabled() at height %s with enabling height %s (other scalar fields of the context as in the model)", height, eh)
	default:
		return nil
	}
	src := replayPrelude + "\nfunc TestGovcReplay(t *testing.T) {\n\t" + body + "\n}\n"
	dir, err := os.MkdirTemp("", "govc-replay-")
	if err != nil {
		return nil
	}
	defer os.RemoveAll(dir)
	testFile := filepath.Join(dir, "zz_govc_replay_test.go")
	os.WriteFile(testFile, []byte(src), 0o644)
	ov := map[string]any{"Replace": map[string]string{filepath.Join(repo, "zz_govc_replay_test.go"): testFile}}
	ovb, _ := json.Marshal(ov)
	ovFile := filepath.Join(dir, "overlay.json")
	os.WriteFile(ovFile, ovb, 0o644)
	cmd := exec.Command("go", "test", "-overlay", ovFile, "-vet=off", "-count=1", "-timeout", "60s", "-run", "^TestGovcReplay$", "-v", ".")
	cmd.Dir = repo
	cmd.Env = append(os.Environ(), "GOFLAGS=-mod=mod", "GOPROXY=off", "GOSUMDB=off", "GOTOOLCHAIN=local")
	done := make(chan struct{})
	var out []byte
	go func() { out, _ = cmd.CombinedOutput(); close(done) }()
	select {
	case <-done:
	case <-time.After(90 * time.Second):
		cmd.Process.Kill()
		return &ReplayResult{How: "replay timed out"}
	}
	res := &ReplayResult{How: "in-package test injected with go test -overlay: " + what, Output: string(out)}
	obs := map[string]string{}
	for _, l := range strings.Split(string(out), "\n") {
		if i := strings.Index(l, "GOVC-RESULT "); i >= 0 {
			for _, kv := range strings.Fields(l[i+len("GOVC-RESULT "):]) {
				k, v, _ := strings.Cut(kv, "=")
				obs[k] = v
			}
		}
	}
	if len(obs) == 0 {
		if strings.Contains(string(out), "panic:") {
			res.Confirmed = true
			res.How += " -- the real code panicked on the model's inputs"
		}
		return res
	}
	res.Confirmed = checkObserved(o, m, obs)
	if res.Confirmed {
		res.How += fmt.Sprintf(" -- observed %v violates the clause %q", obs, o.Clause)
	} else {
		res.How += fmt.Sprintf(" -- observed %v satisfies the clause on these inputs (the model is not a failing input of the real code)", obs)
	}
	return res
}

// contextFieldAssignments: Go statements that give every boolean or integer field of Context named in the model (also
// fields a change added) the model's value; fields of other types, and values outside the field's type, are skipped.
func contextFieldAssignments(w *World, m map[string]string) string {
	var sb strings.Builder
	pi := w.Pkgs["github.com/nspcc-dev/dbft"]
	if pi == nil {
		return ""
	}
	obj := pi.P.Types.Scope().Lookup("Context")
	if obj == nil {
		return ""
	}
	st, ok := obj.Type().Underlying().(*types.Struct)
	if !ok {
		return ""
	}
	for i := 0; i < st.NumFields(); i++ {
		f := st.Field(i)
		v, ok := m["Context."+f.Name()]
		if !ok || f.Name() == "BlockIndex" || f.Name() == "ViewNumber" {
			continue
		}
		b, isBasic := f.Type().Underlying().(*types.Basic)
		if !isBasic {
			continue
		}
		switch {
		case b.Info()&types.IsBoolean != 0 && (v == "true" || v == "false"):
			fmt.Fprintf(&sb, "\tc.%s = %s\n", f.Name(), v)
		case b.Info()&types.IsInteger != 0:
			lo, hi, okr := intRange(f.Type())
			bv, okv := new(big.Int).SetString(v, 10)
			if okr && okv && bv.Cmp(lo) >= 0 && bv.Cmp(hi) <= 0 {
				fmt.Fprintf(&sb, "\tc.%s = %s\n", f.Name(), v)
			}
		}
	}
	return sb.String()
}

// checkObserved evaluates the failed clause on the observed values (exact integer arithmetic).
func checkObserved(o *Obligation, m, obs map[string]string) bool {
	bi := func(s string) *big.Int {
		b, ok := new(big.Int).SetString(s, 10)
		if !ok {
			return big.NewInt(0)
		}
		return b
	}
	n := bi(mval(m, "Context.Validators.len", "1"))
	switch o.Func {
	case "(*Context).N":
		return bi(obs["result"]).Cmp(n) != 0
	case "(*Context).F":
		f := new(big.Int).Quo(new(big.Int).Sub(n, big.NewInt(1)), big.NewInt(3))
		return bi(obs["result"]).Cmp(f) != 0
	case "(*Context).M":
		f := new(big.Int).Quo(new(big.Int).Sub(n, big.NewInt(1)), big.NewInt(3))
		return bi(obs["result"]).Cmp(new(big.Int).Sub(n, f)) != 0
	case "(*Context).GetPrimaryIndex":
		h := bi(mval(m, "Context.BlockIndex", "0"))
		v := bi(mval(m, "in.viewNumber", "0"))
		want := new(big.Int).Mod(new(big.Int).Sub(h, v), n) // Euclidean
		r := bi(obs["result"])
		if strings.Contains(o.Name, "range") {
			return r.Sign() < 0 || r.Cmp(n) >= 0
		}
		return r.Cmp(want) != 0
	case "(*Context).isAntiMEVExtensionEnabled":
		eh := bi(mval(m, "Config.AntiMEVExtensionEnablingHeight", "-1"))
		h := bi(mval(m, "Context.BlockIndex", "0"))
		want := eh.Sign() >= 0 && eh.Cmp(h) <= 0
		return (obs["result"] == "true") != want
	case "(*Context).getTimestamp", "(*Context).Fill":
		incr := bi(mval(m, "Config.TimestampIncrement", "1"))
		last := bi(mval(m, "Context.lastBlockTimestamp", "0"))
		now := bi(m["$now"])
		trunc := new(big.Int).Mul(new(big.Int).Quo(now, incr), incr)
		if o.Func == "(*Context).getTimestamp" {
			return bi(obs["result"]).Cmp(trunc) != 0
		}
		if obs["result"] != "true" {
			return false
		}
		ts := bi(obs["timestamp"])
		want := new(big.Int).Add(last, incr)
		if trunc.Cmp(want) > 0 {
			want = trunc
		}
		switch {
		case strings.Contains(o.Name, "increasing"):
			return ts.Cmp(last) <= 0
		case strings.Contains(o.Name, "clock"):
			return ts.Cmp(want) != 0
		case strings.Contains(o.Name, "pool"):
			return obs["hashes"] != m["$pool"]
		}
	}
	return false
}
