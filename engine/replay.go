package main

// Replay of counterexamples against the real code (go test -overlay).

func replayObligation(w *World, o *Obligation, repo string) *ReplayResult {
	return nil
}
