package main

// Model of encoding/gob used by the reference payload code (internal/consensus, C19).
//
//   (*gob.Encoder).Encode(v): the argument is evaluated (the `at call w.Encode` clauses of the
//       enclosing contract see it as arg0); the result is an arbitrary error; no effect on program state.
//   (*gob.Decoder).Decode(p): the result is an arbitrary error and the object p points to holds an
//       ARBITRARY value of its type afterwards (on success and on failure alike: a failed Decode may
//       have written part of the value).  Nothing else changes.
//
// What the bytes are is not modelled: that gob reproduces on Decode the value given to Encode and
// that different values have different encodings is assumption A-GOB (DESIGN.md).

import (
	"go/ast"
	"go/token"
	"go/types"
)

func (c *Ctx) gobDecode(e *ast.CallExpr, rt types.Type) Value {
	x := c.x
	if len(e.Args) != 1 {
		panic(engineErr("%s: gob Decode with %d arguments", x.pos(e.Pos()), len(e.Args)))
	}
	a := unparen(e.Args[0])
	if u, ok := a.(*ast.UnaryExpr); ok && u.Op == token.AND {
		if _, isLit := u.X.(*ast.CompositeLit); !isLit {
			// &local / &field: the variable becomes arbitrary
			T := c.typeOf(u.X)
			nv := x.freshValue("decoded", T)
			x.assign(c, u.X, nv)
			// the at-call clauses and decoded(T) see a pointer to an object holding the very value the variable now has
			var args []Value
			switch {
			case x.isBoxed(T):
				args = []Value{c.allocBox(T, nv, c.typeOf(a))}
			case nv.Kind == KStruct:
				ref := c.alloc(nv, c.typeOf(a))
				c.st.store[decodedKey] = Scalar(ref.S, nil)
				args = []Value{ref}
			default:
				args = []Value{Scalar(Fresh("addr", SRef), c.typeOf(a))}
			}
			c.atCall(e, args)
			return c.arbitrary("gob.Decode", rt)
		}
	}
	v := c.eval(a)
	c.atCall(e, []Value{v})
	pt, ok := types.Unalias(c.typeOf(a)).Underlying().(*types.Pointer)
	if !ok {
		// gob reports an error for a non-pointer argument
		return c.arbitrary("gob.Decode", rt)
	}
	if v.Kind == KScalar && v.S.Sort == SRef {
		if _, _, isStruct := x.isRepoStruct(pt.Elem()); isStruct && !x.isOpaqueNamed(pt.Elem()) {
			c.storeObject(v.S, x.freshValue("decoded", pt.Elem()))
			c.st.store[decodedKey] = Scalar(v.S, nil)
		} else {
			c.storePointee(v.S, pt.Elem(), x.freshValue("decoded", pt.Elem()))
		}
		return c.arbitrary("gob.Decode", rt)
	}
	panic(engineErr("%s: gob Decode into %s not supported", x.pos(e.Pos()), exprText(a)))
}

// ---- pointers to non-struct values (boxes) ------------------------------------
//
// A pointer to a value that is not a repository struct (*crypto.Uint256, *int, ...) is a
// reference into a per-type heap array "box.<T>": Ref -> value.

func boxKey(T types.Type) string { return "H:box." + types.TypeString(types.Unalias(T), nil) }

// isBoxed: T is a type whose pointers are modelled as boxes.
func (x *Exec) isBoxed(T types.Type) bool {
	if x.isOpaqueNamed(T) {
		return true
	}
	if _, _, ok := x.isRepoStruct(T); ok {
		return false
	}
	switch x.kindOf(T) {
	case KScalar, KSlice:
		return true
	}
	return false
}

func (c *Ctx) loadPointee(r *Term, T types.Type) Value {
	h := c.x.load(c.st, boxKey(T), T)
	v := h.mapTerms(func(t *Term) *Term { return Select(t, r) })
	v.T = T
	c.x.valueFacts(v)
	return v
}

func (c *Ctx) storePointee(r *Term, T types.Type, v Value) {
	x := c.x
	key := boxKey(T)
	h := x.load(c.st, key, T)
	nv := zip2(h, liftLike(h, c.coerce(v, T)), func(arr, val *Term) *Term { return Store(arr, r, val) })
	nv.T = T
	x.storeTo(c.st, key, nv)
}

// allocBox: new(T) / &local for a boxed type.
func (c *Ctx) allocBox(T types.Type, v Value, ptrT types.Type) Value {
	r := Fresh("new", SRef)
	c.x.addFact(r, Neq(r, Nil))
	c.x.freshRefs = append(c.x.freshRefs, r)
	c.freshFromAll(r)
	c.storePointee(r, T, v)
	return Scalar(r, ptrT)
}

// storeObject overwrites every field of the struct object r.
func (c *Ctx) storeObject(r *Term, sv Value) {
	x := c.x
	owner := typeName(sv.T)
	_, s, _ := x.isRepoStruct(sv.T)
	for i := 0; i < s.NumFields(); i++ {
		f := s.Field(i)
		key := "H:" + owner + "." + f.Name()
		h := x.load(c.st, key, f.Type())
		nv := zip2(h, liftLike(h, sv.Fields[f.Name()]), func(arr, val *Term) *Term { return Store(arr, r, val) })
		nv.T = f.Type()
		x.storeTo(c.st, key, nv)
	}
}

// freshFromAll (option freshalloc): a newly allocated object differs from every reference the
// current state holds: in variables, in slices and maps of references, and in reference-valued
// fields of every heap object.
func (c *Ctx) freshFromAll(r *Term) {
	if !c.x.contracts().Options["freshalloc"] || c.spec {
		return
	}
	c.st.assume(freshTerm(r, c.st.store))
}

// freshTerm: r differs from every reference held in the store.
func freshTerm(r *Term, store map[string]Value) *Term {
	var visit func(v Value)
	j := BVar("j!fresh", SInt)
	q := BVar("q!fresh", SRef)
	refArr := ArraySort(SInt, SRef)
	var out []*Term
	visitTerm := func(t *Term) {
		if t == nil || t == r {
			return
		}
		switch {
		case t.Sort == SRef:
			if t != Nil {
				out = append(out, Neq(r, t))
			}
		case t.Sort == refArr:
			out = append(out, Forall([]*Term{j}, Neq(Select(t, j), r)))
		case t.Sort == ArraySort(SRef, SRef):
			out = append(out, Forall([]*Term{q}, Neq(Select(t, q), r)))
		case t.Sort == ArraySort(SRef, refArr):
			out = append(out, Forall([]*Term{q, j}, Neq(Select(Select(t, q), j), r)))
		}
	}
	visit = func(v Value) {
		switch v.Kind {
		case KScalar:
			visitTerm(v.S)
		case KSlice, KMap:
			visitTerm(v.Arr)
		case KStruct:
			for _, f := range v.Fields {
				visit(f)
			}
		case KTuple:
			for _, e := range v.Elems {
				visit(e)
			}
		}
	}
	var keys []string
	for k := range store {
		keys = append(keys, k)
	}
	sortStrings(keys)
	for _, k := range keys {
		if isSpecialKey(k) {
			continue
		}
		visit(store[k])
	}
	return And(out...)
}

// atomicCall: methods of sync/atomic.Uint64 & co. on an addressable variable; in the single-threaded model
// (A1) Load reads it, Store/Swap/Add/CompareAndSwap write it.
func (c *Ctx) atomicCall(o *types.Func, sel *ast.SelectorExpr, e *ast.CallExpr) (Value, bool) {
	sig, ok := o.Type().(*types.Signature)
	if !ok || sig.Recv() == nil {
		return Value{}, false
	}
	et, ok := atomicElem(pointee(sig.Recv().Type()))
	if !ok {
		return Value{}, false
	}
	x := c.x
	cur := c.eval(sel.X)
	cur.T = et
	switch o.Name() {
	case "Load":
		x.valueFacts(cur)
		return cur, true
	case "Store":
		v := c.coerce(c.eval(e.Args[0]), et)
		v.T = c.typeOf(sel.X)
		x.assign(c, sel.X, v)
		return Value{Kind: KNone}, true
	case "Swap":
		v := c.coerce(c.eval(e.Args[0]), et)
		v.T = c.typeOf(sel.X)
		x.assign(c, sel.X, v)
		return cur, true
	case "Add":
		d := c.eval(e.Args[0])
		r := wrapTo(Add(cur.S, d.S), et)
		nv := Scalar(r, c.typeOf(sel.X))
		x.assign(c, sel.X, nv)
		return Scalar(r, et), true
	case "CompareAndSwap":
		old := c.eval(e.Args[0])
		nw := c.eval(e.Args[1])
		hit := Eq(cur.S, old.S)
		x.assign(c, sel.X, Scalar(Ite(hit, nw.S, cur.S), c.typeOf(sel.X)))
		return Scalar(hit, types.Typ[types.Bool]), true
	}
	return Value{}, false
}
