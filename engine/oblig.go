package main

// Discharging obligations: relevant facts, count-axiom instantiation, solver runs.

import (
	"fmt"
	"strings"
	"sync"
)

func subterms(ts []*Term, seen map[int]*Term) {
	var walk func(t *Term)
	walk = func(t *Term) {
		if _, ok := seen[t.id]; ok {
			return
		}
		seen[t.id] = t
		for _, a := range t.Args {
			walk(a)
		}
	}
	for _, t := range ts {
		walk(t)
	}
}

// BuildQuery assembles hypotheses (path condition + relevant facts + count axioms).
func (o *Obligation) BuildQuery(counts []*countDef) []*Term {
	hyps := append([]*Term{}, o.Hyps...)
	seen := map[int]*Term{}
	subterms(append(append([]*Term{}, hyps...), o.Goal), seen)
	axDone := map[int]bool{}
	addAxioms := func() []*Term {
		var out []*Term
		names := map[string]bool{}
		for _, t := range seen {
			if t.Op == "app" {
				names[t.Name] = true
			}
		}
		for _, ax := range o.Axioms {
			if axDone[ax.id] {
				continue
			}
			as := map[int]*Term{}
			subterms([]*Term{ax}, as)
			for _, t := range as {
				if t.Op == "app" && names[t.Name] {
					axDone[ax.id] = true
					out = append(out, ax)
					break
				}
			}
		}
		return out
	}
	added := map[int]bool{}
	cntDone := map[int]bool{}
	cdByName := map[string]*countDef{}
	for _, cd := range counts {
		cdByName[cd.name] = cd
	}
	for round := 0; round < 8; round++ {
		var newTerms []*Term
		for id := range seen {
			if f, ok := o.Facts[id]; ok && !added[id] {
				added[id] = true
				hyps = append(hyps, f)
				newTerms = append(newTerms, f)
			}
		}
		if round < 2 {
			for id, t := range seen {
				if t.Op == "app" && strings.HasPrefix(t.Name, "cnt!") && !cntDone[id] && !t.bound {
					cntDone[id] = true
					cd := cdByName[t.Name]
					if cd == nil {
						continue
					}
					a, b := t.Args[0], t.Args[1]
					inst := And(
						Ge(t, IntLit(0)),
						Implies(Le(b, a), Eq(t, IntLit(0))),
						Implies(Le(a, b), Le(t, Sub(b, a))),
						Implies(Lt(a, b), Eq(t, Add(App(cd.name, SInt, a, Sub(b, IntLit(1))), Ite(cd.body(Sub(b, IntLit(1))), IntLit(1), IntLit(0))))),
					)
					hyps = append(hyps, inst)
					newTerms = append(newTerms, inst)
				}
			}
		}
		if ax := addAxioms(); len(ax) > 0 {
			hyps = append(hyps, ax...)
			newTerms = append(newTerms, ax...)
		}
		if len(newTerms) == 0 {
			break
		}
		subterms(newTerms, seen)
	}
	return hyps
}

func hasQuantifier(ts []*Term) bool {
	seen := map[int]bool{}
	var walk func(t *Term) bool
	walk = func(t *Term) bool {
		if seen[t.id] {
			return false
		}
		seen[t.id] = true
		if t.Op == "forall" || t.Op == "exists" {
			return true
		}
		for _, a := range t.Args {
			if walk(a) {
				return true
			}
		}
		return false
	}
	for _, t := range ts {
		if walk(t) {
			return true
		}
	}
	return false
}

func flattenAnd(ts []*Term) []*Term {
	var out []*Term
	for _, t := range ts {
		if t.Op == "and" {
			out = append(out, flattenAnd(t.Args)...)
		} else if t != True {
			out = append(out, t)
		}
	}
	return out
}

func symbolsOf(t *Term, into map[string]bool) {
	seen := map[int]bool{}
	var walk func(t *Term)
	walk = func(t *Term) {
		if seen[t.id] {
			return
		}
		seen[t.id] = true
		if t.Op == "var" || t.Op == "app" {
			into[t.Name] = true
		}
		for _, a := range t.Args {
			walk(a)
		}
	}
	walk(t)
}

// relevant keeps the hypotheses connected to the goal through shared symbols (rounds of closure).
func relevant(hyps []*Term, goal *Term, rounds int, dropQuant bool) []*Term {
	syms := map[string]bool{}
	symbolsOf(goal, syms)
	hs := make([]map[string]bool, len(hyps))
	quant := make([]bool, len(hyps))
	for i, h := range hyps {
		hs[i] = map[string]bool{}
		symbolsOf(h, hs[i])
		quant[i] = hasQuantifier([]*Term{h})
	}
	taken := make([]bool, len(hyps))
	for r := 0; r < rounds; r++ {
		changed := false
		for i := range hyps {
			if taken[i] || (dropQuant && quant[i]) {
				continue
			}
			hit := len(hs[i]) == 0
			for s := range hs[i] {
				if syms[s] {
					hit = true
					break
				}
			}
			if hit {
				taken[i] = true
				changed = true
				for s := range hs[i] {
					syms[s] = true
				}
			}
		}
		if !changed {
			break
		}
	}
	var out []*Term
	for i, h := range hyps {
		if taken[i] {
			out = append(out, h)
		}
	}
	return out
}

type RunConfig struct {
	TimeoutMs int
	All       bool // all solvers must agree
	Workers   int
	// NoRetry: obligation names that are not retried after a timeout (the known findings: they are expected not to be proved)
	NoRetry map[string]bool
	// RetryFactor: an obligation that no solver decided within the budget is tried once more, alone, with this
	// multiple of the budget (a loaded machine must not turn a slow proof into a failed one); 0 = no retry
	RetryFactor int
}

func Discharge(obls []*Obligation, counts map[*Obligation][]*countDef, cfg RunConfig) {
	type job struct {
		o       *Obligation
		scripts []string // increasingly complete hypothesis sets; the last one is the full query
		vacuity bool
	}
	// scripts are generated sequentially (term tables are not thread-safe)
	jobs := make([]job, 0, len(obls))
	for _, o := range obls {
		if o.Goal == True {
			o.Verdict = VUnsat
			o.Solver = "trivial"
			continue
		}
		hyps := flattenAnd(o.BuildQuery(counts[o]))
		o.QF = !hasQuantifier(append(append([]*Term{}, hyps...), o.Goal))
		var vals []*Term
		present := map[int]*Term{}
		subterms(append(append([]*Term{}, hyps...), o.Goal), present)
		for _, in := range o.Inputs {
			if _, ok := present[in.id]; ok {
				vals = append(vals, in)
			}
		}
		for _, t := range present {
			if t.Op == "var" && len(vals) < 80 && (t.Sort == SInt || t.Sort == SBool) && (!strings.Contains(t.Name, "!") || strings.HasPrefix(t.Name, "call.")) {
				dup := false
				for _, v := range vals {
					if v == t {
						dup = true
					}
				}
				if !dup {
					vals = append(vals, t)
				}
			}
		}
		j := job{o: o}
		if o.Kind == "vacuity" {
			// canary: only the quantifier-free part, short budget; "unsat" here means a contradictory precondition
			var qf []*Term
			for _, h := range hyps {
				if !hasQuantifier([]*Term{h}) || !strings.HasSuffix(o.Name, ":entry") {
					qf = append(qf, h)
				}
			}
			j.scripts = []string{Script(qf, o.Goal, nil)}
			j.vacuity = true
			jobs = append(jobs, j)
			continue
		}
		if !o.QF {
			// stage 1: quantifier-free hypotheses connected to the goal; stage 2: connected hypotheses
			j.scripts = append(j.scripts, Script(relevant(hyps, o.Goal, 4, true), o.Goal, nil))
			j.scripts = append(j.scripts, Script(relevant(hyps, o.Goal, 2, false), o.Goal, nil))
		}
		j.scripts = append(j.scripts, Script(hyps, o.Goal, vals))
		jobs = append(jobs, j)
	}
	if cfg.Workers <= 0 {
		cfg.Workers = 8
	}
	var wg sync.WaitGroup
	ch := make(chan job)
	for i := 0; i < cfg.Workers; i++ {
		wg.Add(1)
		go func() {
			defer wg.Done()
			for j := range ch {
				var total int64
				for k, sc := range j.scripts {
					last := k == len(j.scripts)-1
					if len(sc) > 4<<20 {
						j.o.Verdict = VUnknown
						j.o.Note = "query exceeds the 4 MB cap"
						continue
					}
					ms := cfg.TimeoutMs
					if !last {
						ms = min(ms, 3000)
					}
					if j.vacuity {
						ms = 1500
					}
					r := Solve(sc, ms, cfg.All)
					total += r.Ms
					if !last {
						// a reduced hypothesis set can only prove, never refute
						if r.Verdict == VUnsat {
							j.o.Verdict, j.o.Solver, j.o.Ms = VUnsat, solverLabel(r), total
							j.o.Note = "proved from a reduced hypothesis set"
							break
						}
						continue
					}
					j.o.Verdict = r.Verdict
					j.o.Solver = solverLabel(r)
					j.o.Ms = total
					j.o.Model = r.Model
					if r.Verdict == VUnknown {
						j.o.Note = "no solver decided within the time limit"
						if r.Solver == "DISAGREE" {
							j.o.Note = "solvers disagree"
						}
					}
				}
			}
		}()
	}
	for _, j := range jobs {
		ch <- j
	}
	close(ch)
	wg.Wait()
	// second chance for timeouts, one at a time, with a longer budget
	if cfg.RetryFactor > 1 {
		// only when few obligations timed out: a slow proof on a loaded machine is one or two of them; many
		// undecided obligations mean the code changed, and retrying each would only cost time
		pending := 0
		for _, j := range jobs {
			if !j.vacuity && j.o.Verdict == VUnknown && !cfg.NoRetry[j.o.Name] && j.o.Note != "solvers disagree" {
				pending++
			}
		}
		if pending > 2 {
			return
		}
		for _, j := range jobs {
			if j.vacuity || j.o.Verdict != VUnknown || cfg.NoRetry[j.o.Name] || len(j.scripts) == 0 {
				continue
			}
			if j.o.Note == "solvers disagree" {
				continue
			}
			sc := j.scripts[len(j.scripts)-1]
			if len(sc) > 4<<20 {
				continue
			}
			r := Solve(sc, cfg.TimeoutMs*cfg.RetryFactor, false)
			j.o.Ms += r.Ms
			if r.Verdict != VUnknown {
				j.o.Verdict = r.Verdict
				j.o.Solver = solverLabel(r)
				j.o.Model = r.Model
				j.o.Note = fmt.Sprintf("decided on the retry with %d times the budget", cfg.RetryFactor)
			}
		}
	}
}

// solverLabel names the deciding solver(s); in the all-solvers mode every solver that answered is listed.
func solverLabel(r SolveResult) string {
	if len(r.All) <= 1 {
		return r.Solver
	}
	var names []string
	for _, n := range []string{"z3-new", "z3", "cvc5"} {
		if v, ok := r.All[n]; ok && v == r.Verdict && v != VUnknown {
			names = append(names, n)
		}
	}
	if len(names) == 0 {
		return r.Solver
	}
	return strings.Join(names, "+")
}
