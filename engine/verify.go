package main

// Per-function verification driver, write-set analysis, location enumeration.

import (
	"fmt"
	"go/ast"
	"go/token"
	"go/types"
	"os"
	"strings"
)

// ---- all static locations of the singleton ------------------------------------

type locInfo struct {
	key string
	T   types.Type
}

func (x *Exec) staticLocations() []locInfo {
	k := x.contracts()
	pk := x.pkg
	if k.Singleton == "" && k.Uses != "" {
		if up := x.w.PkgByName(k.Uses); up != nil {
			pk = up
			k = up.Contracts
		}
	}
	if k.Singleton == "" {
		return nil
	}
	o := pk.P.Types.Scope().Lookup(k.Singleton)
	if o == nil {
		return nil
	}
	var out []locInfo
	seen := map[string]bool{}
	var walk func(prefix string, T types.Type, depth int)
	walk = func(prefix string, T types.Type, depth int) {
		if depth > 6 {
			return
		}
		T = types.Unalias(T)
		if p, ok := T.Underlying().(*types.Pointer); ok {
			T = p.Elem()
		}
		s, ok := types.Unalias(T).Underlying().(*types.Struct)
		if !ok {
			return
		}
		for i := 0; i < s.NumFields(); i++ {
			f := s.Field(i)
			path := prefix + f.Name()
			if _, ok := k.Aliases[path]; ok {
				continue
			}
			switch x.kindOf(f.Type()) {
			case KPtr:
				p, _ := x.staticPath(f.Type())
				if !seen["P:"+p] {
					seen["P:"+p] = true
					walk(p, f.Type(), depth+1)
				}
			case KStruct:
				walk(path+".", f.Type(), depth+1)
			default:
				if !seen[path] {
					seen[path] = true
					out = append(out, locInfo{"S:" + path, f.Type()})
				}
			}
		}
	}
	walk("", o.Type(), 0)
	return out
}

func (x *Exec) allLocations() []string {
	var out []string
	seen := map[string]bool{}
	for _, l := range x.staticLocations() {
		if _, ok := x.locTypes[l.key]; !ok {
			x.locTypes[l.key] = l.T
		}
		if !seen[l.key] {
			seen[l.key] = true
			out = append(out, l.key)
		}
	}
	for k := range x.locTypes {
		if (strings.HasPrefix(k, "H:") || strings.HasPrefix(k, "S:")) && !seen[k] {
			seen[k] = true
			out = append(out, k)
		}
	}
	for _, g := range x.contracts().Ghosts {
		out = append(out, "G:"+g.Name)
	}
	sortStrings(out)
	return out
}

// ---- write sets ---------------------------------------------------------------

type writeSet struct {
	x     *Exec
	fr    *Frame
	keys  map[string]bool
	types map[string]types.Type
	all   bool
	seen  map[*FuncInfo]bool
}

// staticKeyOf resolves an lvalue expression to a store key without evaluating it.
func (ws *writeSet) keyOf(e ast.Expr, info *types.Info, pkg *PkgInfo) (string, types.Type, bool) {
	x := ws.x
	e = unparen(e)
	switch l := e.(type) {
	case *ast.Ident:
		if v, ok := info.ObjectOf(l).(*types.Var); ok {
			if ws.fr != nil {
				if k, ok := ws.fr.keys[v]; ok {
					return k, v.Type(), true
				}
			}
			return "L:?:" + v.Name(), v.Type(), true // local of an inlined callee: irrelevant to the caller
		}
	case *ast.IndexExpr:
		return ws.keyOf(l.X, info, pkg)
	case *ast.SliceExpr:
		return ws.keyOf(l.X, info, pkg)
	case *ast.StarExpr:
		return ws.keyOf(l.X, info, pkg)
	case *ast.SelectorExpr:
		sel, ok := info.Selections[l]
		if !ok || sel.Kind() != types.FieldVal {
			return "", nil, false
		}
		// walk the embedded path by types
		T := sel.Recv()
		prefix, static := x.staticPath(T)
		var owner string
		var ft types.Type
		for _, i := range sel.Index() {
			T = types.Unalias(T)
			if p, ok := T.Underlying().(*types.Pointer); ok {
				T = p.Elem()
			}
			if p2, ok := x.staticPath(T); ok {
				prefix, static = p2, true
			}
			s, ok := types.Unalias(T).Underlying().(*types.Struct)
			if !ok {
				return "", nil, false
			}
			owner = typeName(T)
			f := s.Field(i)
			ft = f.Type()
			if static {
				if a, ok := x.contractsOf(pkgPathOf(f)).Aliases[prefix+f.Name()]; ok {
					prefix = a
				} else if p2, ok := x.staticPath(f.Type()); ok {
					prefix = p2
				} else if x.kindOf(f.Type()) == KStruct {
					prefix = prefix + f.Name() + "."
				} else {
					prefix = prefix + f.Name()
				}
			}
			T = f.Type()
		}
		if static {
			return "S:" + prefix, ft, true
		}
		// base is a local struct value or a dynamic pointer
		if bk, bt, ok := ws.keyOf(l.X, info, pkg); ok && strings.HasPrefix(bk, "L:") {
			if _, isPtr := types.Unalias(bt).Underlying().(*types.Pointer); !isPtr {
				if x.kindOf(bt) == KStruct {
					return bk, bt, true
				}
			}
		}
		return "H:" + owner + "." + l.Sel.Name, ft, true
	}
	return "", nil, false
}

func pkgPathOf(f *types.Var) string {
	if f.Pkg() != nil {
		return f.Pkg().Path()
	}
	return ""
}

func (ws *writeSet) add(e ast.Expr, info *types.Info, pkg *PkgInfo) {
	if id, ok := unparen(e).(*ast.Ident); ok && id.Name == "_" {
		return
	}
	k, T, ok := ws.keyOf(e, info, pkg)
	if !ok {
		ws.all = true
		return
	}
	ws.keys[k] = true
	if ws.types == nil {
		ws.types = map[string]types.Type{}
	}
	ws.types[k] = T
}

func (ws *writeSet) walk(n ast.Node, info *types.Info, pkg *PkgInfo, depth int) {
	x := ws.x
	if ws.seen == nil {
		ws.seen = map[*FuncInfo]bool{}
	}
	ast.Inspect(n, func(n ast.Node) bool {
		switch s := n.(type) {
		case *ast.AssignStmt:
			for _, l := range s.Lhs {
				ws.add(l, info, pkg)
			}
		case *ast.IncDecStmt:
			ws.add(s.X, info, pkg)
		case *ast.RangeStmt:
			if s.Key != nil {
				ws.add(s.Key, info, pkg)
			}
			if s.Value != nil {
				ws.add(s.Value, info, pkg)
			}
		case *ast.DeclStmt:
			if gd, ok := s.Decl.(*ast.GenDecl); ok {
				for _, sp := range gd.Specs {
					if vs, ok := sp.(*ast.ValueSpec); ok {
						for _, nm := range vs.Names {
							ws.add(nm, info, pkg)
						}
					}
				}
			}
		case *ast.FuncLit:
			return true
		case *ast.CallExpr:
			fun := unparen(s.Fun)
			if ie, ok := fun.(*ast.IndexExpr); ok {
				fun = unparen(ie.X)
			}
			var obj types.Object
			switch f := fun.(type) {
			case *ast.Ident:
				obj = info.Uses[f]
				if b, ok := obj.(*types.Builtin); ok {
					switch b.Name() {
					case "clear", "delete", "copy":
						ws.add(s.Args[0], info, pkg)
					}
				}
			case *ast.SelectorExpr:
				if sel, ok := info.Selections[f]; ok {
					obj = sel.Obj()
					if sel.Kind() == types.FieldVal {
						// callback: ghost effects of the extern spec
						owner, _ := (&Ctx{x: x}).walkPathOwner(sel.Recv(), sel.Index())
						if sp := pkg.Contracts.Externs[owner+"."+f.Sel.Name]; sp != nil {
							for _, g := range sp.Ghosts {
								ws.keys["G:"+g.Target] = true
							}
							ws.modifies(sp, pkg)
						}
						return true
					}
				} else {
					obj = info.Uses[f.Sel]
				}
			}
			fo, ok := obj.(*types.Func)
			if !ok {
				return true
			}
			fo = fo.Origin()
			if fo.FullName() == "crypto/rand.Read" && len(s.Args) == 1 {
				ws.add(s.Args[0], info, pkg)
			}
			if fi := x.w.FuncOf(fo); fi != nil {
				if fi.Spec != nil && !fi.Spec.Inline {
					if !fi.Spec.HasMod {
						ws.all = true
					} else {
						ws.modifies(fi.Spec, fi.Pkg)
					}
					return true
				}
				if !ws.seen[fi] && depth < 12 {
					ws.seen[fi] = true
					sub := &writeSet{x: x, fr: nil, keys: ws.keys, types: ws.types, seen: ws.seen}
					if sub.types == nil {
						sub.types = map[string]types.Type{}
						ws.types = sub.types
					}
					sub.walk(fi.Decl.Body, fi.Pkg.P.TypesInfo, fi.Pkg, depth+1)
					if sub.all {
						ws.all = true
					}
				}
				return true
			}
			if isInterfaceMethod(fo) {
				for _, nm := range ifaceMethodNames(fo, Value{}) {
					if sp := pkg.Contracts.Externs[nm]; sp != nil {
						for _, g := range sp.Ghosts {
							ws.keys["G:"+g.Target] = true
						}
						ws.modifies(sp, pkg)
					}
				}
			}
			if sp := pkg.Contracts.Externs[fo.FullName()]; sp != nil {
				for _, g := range sp.Ghosts {
					ws.keys["G:"+g.Target] = true
				}
				ws.modifies(sp, pkg)
			}
		}
		return true
	})
}

func (ws *writeSet) modifies(sp *FuncSpec, pkg *PkgInfo) {
	for _, m := range sp.Modifies {
		if m == "*" {
			ws.all = true
			return
		}
	}
	for _, m := range sp.Modifies {
		for _, k := range ws.x.expandLoc(m, nil) {
			ws.keys[k] = true
		}
	}
}

// ---- verification of one function against its contract -------------------------

type FuncResult struct {
	Func     *FuncInfo
	Obls     []*Obligation
	Err      error
	Warnings []string
	Inlined  []string
	Axioms   []*countDef
}

func (fr *Frame) setEntry(st *State, vars map[string]Value) {}

var entryStates = map[*Frame]*State{}
var entryVarsMap = map[*Frame]map[string]Value{}

func (x *Exec) entryState(fr *Frame) *State {
	if s, ok := entryStates[fr]; ok {
		return s
	}
	return entryStates[x.frames[0]]
}

func (x *Exec) entryVars(fr *Frame) map[string]Value {
	if v, ok := entryVarsMap[fr]; ok {
		return v
	}
	return entryVarsMap[x.frames[0]]
}

// checkAnchors: every loop and call site named by the contract must exist in the current source, and the function
// must still have the number of loops the contract was written for (panics with an engine error otherwise).
func checkAnchors(fi *FuncInfo, sp *FuncSpec) {
	nloops := 0
	calls := map[string]bool{}
	ast.Inspect(fi.Decl.Body, func(n ast.Node) bool {
		switch v := n.(type) {
		case *ast.ForStmt, *ast.RangeStmt:
			nloops++
		case *ast.CallExpr:
			calls[exprText(v.Fun)] = true
			if se, ok := unparen(v.Fun).(*ast.SelectorExpr); ok {
				calls["*."+se.Sel.Name] = true
			}
			if len(v.Args) > 0 && fi.Pkg.P.TypesInfo != nil {
				if tv, ok := fi.Pkg.P.TypesInfo.Types[v.Args[0]]; ok {
					if n := typeName(pointee(tv.Type)); n != "" {
						calls[exprText(v.Fun)+"<"+n+">"] = true
						if se, ok := unparen(v.Fun).(*ast.SelectorExpr); ok {
							calls["*."+se.Sel.Name+"<"+n+">"] = true
						}
					}
				}
			}
		}
		return true
	})
	if os.Getenv("GOVC_LISTLOOPS") != "" {
		fmt.Printf("LOOPS %s %s %d\n", fi.Pkg.Name, fi.Key, nloops)
	}
	// with loop clauses any change of the count moves the ordinals; without them only NEW loops matter (they would be
	// executed without an invariant), fewer loops are harmless
	if sp.LoopCountSet && ((len(sp.Loops) > 0 && sp.LoopCount != nloops) || (len(sp.Loops) == 0 && nloops > sp.LoopCount)) {
		panic(engineErr("the contract was written for %d loops but the function has %d: loop ordinals no longer name the same loops (anchor lost)", sp.LoopCount, nloops))
	}
	for ord := range sp.Loops {
		if ord > nloops {
			panic(engineErr("contract names loop %d but the function has %d loops (anchor lost)", ord, nloops))
		}
	}
	for callee := range sp.AtCall {
		if !calls[callee] {
			panic(engineErr("contract names the call site %q which no longer exists (anchor lost)", callee))
		}
	}
}

// InlineAnchorError checks the anchors of a contract whose function is not verified on its own (inline functions).
func InlineAnchorError(fi *FuncInfo) (err error) {
	defer func() {
		if r := recover(); r != nil {
			if ee, ok := r.(*EngineError); ok {
				err = fmt.Errorf("%s.%s: %s", fi.Pkg.Name, fi.Key, ee.Msg)
				return
			}
			panic(r)
		}
	}()
	if fi.Spec != nil && fi.Decl != nil && fi.Decl.Body != nil {
		checkAnchors(fi, fi.Spec)
	}
	return nil
}

func VerifyFunc(w *World, fi *FuncInfo) (res *FuncResult) {
	x := newExec(w, fi.Pkg, fi)
	res = &FuncResult{Func: fi}
	defer func() {
		if r := recover(); r != nil {
			if ee, ok := r.(*EngineError); ok {
				res.Err = fmt.Errorf("%s.%s: %s", fi.Pkg.Name, fi.Key, ee.Msg)
				return
			}
			panic(r)
		}
	}()
	sp := fi.Spec
	if sp == nil {
		sp = &FuncSpec{Key: fi.Key, Loops: map[int]*LoopSpec{}, AtCall: map[string]*CallSpec{}, Wraps: map[string]bool{}, WrapsIf: map[string]ast.Expr{}}
	}
	checkAnchors(fi, sp)
	fr := x.newFrame(fi)
	x.frames = []*Frame{fr}
	st := newState()
	sig := fi.Obj.Type().(*types.Signature)
	// receiver
	recv := Value{Kind: KNone}
	vars := map[string]Value{}
	if sig.Recv() != nil {
		rt := sig.Recv().Type()
		if p, ok := x.staticPath(rt); ok {
			recv = Value{Kind: KPtr, T: rt, Path: p}
		} else {
			recv = x.symbolic("recv", rt, func(n string, s Sort) *Term { return Var(n, s) })
			if recv.Kind == KScalar && recv.S.Sort == SRef {
				if _, isPtr := types.Unalias(rt).Underlying().(*types.Pointer); isPtr {
					st.assume(Neq(recv.S, Nil))
				}
			}
		}
	}
	var args []Value
	for i := 0; i < sig.Params().Len(); i++ {
		p := sig.Params().At(i)
		name := p.Name()
		if name == "" || name == "_" {
			name = fmt.Sprintf("arg%d", i)
		}
		v := x.symbolic("in."+name, p.Type(), func(n string, s Sort) *Term { return Var(n, s) })
		args = append(args, v)
		for _, t := range v.components() {
			if t.Sort == SInt || t.Sort == SBool || t.Sort == SRef {
				x.inputs = append(x.inputs, t)
			}
		}
	}
	call := &ast.CallExpr{Ellipsis: token.Pos(1)} // variadic parameter is bound as a slice
	x.bindParams(fr, st, recv, args, call)
	// clauses may use the names the contract was written with (recvname / params, positional)
	if !sp.Extern {
		if sp.RecvName != "" && sig.Recv() != nil {
			if key, ok := fr.scope[sig.Recv().Name()]; ok {
				fr.scope[sp.RecvName] = key
			}
		}
		for k, n := range sp.Params {
			if k < sig.Params().Len() && n != "" && n != "_" {
				if key, ok := fr.scope[sig.Params().At(k).Name()]; ok {
					fr.scope[n] = key
				}
			}
		}
	}
	for k, v := range x.bindSpecVars(fi, recv, args) {
		vars[k] = v
	}
	c := x.ctx(fr, st)
	for _, r := range sp.Requires {
		st.assume(c.specEval(r.Expr, st, st, vars))
	}
	for _, r := range sp.Assumes {
		st.assume(c.specEval(r.Expr, st, st, vars))
	}
	// vacuity canary: the precondition must be satisfiable ("false" must not be provable from it)
	x.oblige(st, "vacuity", "entry", nil, False, fi.Decl.Pos(), "precondition is satisfiable")
	entry := st.Clone()
	entryStates[fr] = entry
	entryVarsMap[fr] = vars
	defer func() { delete(entryStates, fr); delete(entryVarsMap, fr) }()

	if sp.Trusted == "" {
		for _, out := range x.runBody(fr, st) {
			resv := x.collectResults(fr, out)
			pvars := map[string]Value{}
			for k, v := range vars {
				pvars[k] = v
			}
			x.bindResults(fi, resv, pvars)
			oc := x.ctx(fr, out)
			for _, g := range sp.Ghosts {
				oc.execGhost(g, pvars, entry)
			}
			if len(sp.Ensures) > 0 {
				// cover canary: some exit must be reachable, or the postconditions say nothing
				x.oblige(out, "vacuity", "exit", nil, False, fi.Decl.Body.Rbrace, "the function exit is reachable")
			}
			for i, en := range sp.Ensures {
				g := oc.specEval(en.Expr, out, entry, pvars)
				hint := fmt.Sprintf("%d", i+1)
				if en.Label != "" {
					hint = en.Label
				}
				x.oblige(out, "post", hint, x.tagsOr(en.Tags, fr), g, fi.Decl.Body.Rbrace, en.Text)
			}
			if sp.HasMod {
				x.frameObligations(fr, out, entry, sp)
			}
		}
	}
	// facts and axioms travel with the obligations
	nameSites(x.obls)
	axioms := x.packageAxioms()
	for _, o := range x.obls {
		o.Facts = x.facts
		o.Inputs = x.inputs
		o.Axioms = axioms
	}
	res.Obls = x.obls
	for wmsg := range x.warnings {
		res.Warnings = append(res.Warnings, wmsg)
	}
	sortStrings(res.Warnings)
	for k := range x.inlined {
		res.Inlined = append(res.Inlined, k)
	}
	sortStrings(res.Inlined)
	for _, cd := range x.counts {
		res.Axioms = append(res.Axioms, cd)
	}
	return res
}

func (x *Exec) frameObligations(fr *Frame, out, entry *State, sp *FuncSpec) {
	for _, m := range sp.Modifies {
		if m == "*" {
			return
		}
	}
	allowed := map[string]bool{}
	for _, m := range sp.Modifies {
		for _, k := range x.expandLoc(m, out) {
			allowed[k] = true
		}
	}
	tags := sp.ModTags
	if len(tags) == 0 {
		tags = x.runTags(fr)
	}
	keys := x.allLocations()
	for k := range out.store {
		if strings.HasPrefix(k, "H:") || strings.HasPrefix(k, "S:") || isSpecialKey(k) {
			found := false
			for _, kk := range keys {
				if kk == k {
					found = true
				}
			}
			if !found {
				keys = append(keys, k)
			}
		}
	}
	for _, k := range keys {
		if allowed[k] {
			continue
		}
		var now, was Value
		if isSpecialKey(k) {
			now = Scalar(x.ghostInt(out, k), nil)
			was = Scalar(x.lazySpecial(k, entryEpoch), nil)
		} else if strings.HasPrefix(k, "G:") {
			g := x.contracts().GhostIdx[k[2:]]
			c := x.ctx(fr, out)
			now = c.ghost(g)
			was = x.lazyGhost(g, entryEpoch)
		} else {
			T := x.locTypes[k]
			if T == nil {
				continue
			}
			if _, touched := out.store[k]; !touched && out.epoch == entryEpoch {
				continue
			}
			now = x.load(out, k, T)
			was = x.lazyInit(k, T, entryEpoch)
			if strings.HasPrefix(k, "H:") {
				// objects allocated by this function are not part of the caller's heap: the frame
				// condition is about every other object
				for _, r := range x.freshRefs {
					r := r
					was = zip2(was, now, func(w, n *Term) *Term { return Store(w, r, Select(n, r)) })
				}
			}
		}
		if sameValue(now, was) {
			continue
		}
		x.oblige(out, "frame", k[2:], tags, valueEq(was, now), fr.fi.Decl.Body.Rbrace, "modifies clause of "+fr.fi.Key)
	}
}

// VerifyLemmas turns each closed lemma of a package into an obligation.
func VerifyLemmas(w *World, pi *PkgInfo) ([]*Obligation, error) {
	var out []*Obligation
	for _, l := range pi.Contracts.Lemmas {
		var err error
		func() {
			defer func() {
				if r := recover(); r != nil {
					if ee, ok := r.(*EngineError); ok {
						err = fmt.Errorf("lemma %s: %s", l.Name, ee.Msg)
						return
					}
					panic(r)
				}
			}()
			x := newExec(w, pi, &FuncInfo{Pkg: pi, Key: "lemma"})
			st := newState()
			vars := map[string]Value{}
			var inputs []*Term
			for _, p := range l.Params {
				t := Var("lemma."+l.Name+"."+p, SInt)
				vars[p] = Scalar(t, types.Typ[types.Int])
				inputs = append(inputs, t)
			}
			c := &Ctx{x: x, st: st, pkg: pi}
			g := c.specEval(l.Body, st, st, vars)
			o := &Obligation{Name: pi.Name + ".lemma/" + l.Name, Kind: "lemma", Tags: l.Tags, Func: "lemma " + l.Name, Pkg: pi.Name,
				Pos: fmt.Sprintf("contracts:%d", l.Line), Clause: l.Text, Goal: g, Facts: x.facts, Inputs: inputs}
			out = append(out, o)
		}()
		if err != nil {
			return nil, err
		}
	}
	return out, nil
}

// packageAxioms evaluates the axioms of the package under verification (state-independent).
func (x *Exec) packageAxioms() []*Term {
	var out []*Term
	st := newState()
	c := &Ctx{x: x, st: st, pkg: x.pkg}
	for _, a := range x.contracts().Axioms {
		out = append(out, c.specEval(a.Body, st, st, nil))
	}
	for _, n := range sortedKeys(x.ufRange) {
		out = append(out, x.ufRange[n])
	}
	return out
}
