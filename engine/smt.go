package main

// SMT term layer: hash-consed terms over sorts Int, Bool, Ref and arrays,
// light simplification, SMT-LIB 2 printing with sharing.

import (
	"fmt"
	"math/big"
	"sort"
	"strings"
)

type Sort string

const (
	SInt  Sort = "Int"
	SBool Sort = "Bool"
	SRef  Sort = "Ref"
)

func ArraySort(idx, elem Sort) Sort { return Sort("(Array " + string(idx) + " " + string(elem) + ")") }

func (s Sort) IsArray() bool { return strings.HasPrefix(string(s), "(Array ") }

// ArrayParts splits "(Array I E)" into I and E.
func (s Sort) ArrayParts() (Sort, Sort) {
	str := string(s)
	str = strings.TrimSuffix(strings.TrimPrefix(str, "(Array "), ")")
	// index sort is a single token or a parenthesised sort
	depth := 0
	for i, ch := range str {
		switch ch {
		case '(':
			depth++
		case ')':
			depth--
		case ' ':
			if depth == 0 {
				return Sort(str[:i]), Sort(str[i+1:])
			}
		}
	}
	panic("bad array sort " + string(s))
}

type Term struct {
	Op    string // "var", "int", "true", "false", "app" (UF), or builtin operator name
	Name  string // var / UF name, or integer literal
	Args  []*Term
	Sort  Sort
	id    int
	bound bool // contains a bound variable (cannot be hoisted)
	// for quantifiers: Op "forall"/"exists", Args[0..n-1] bound vars, Args[n] body
	NBound int
	Pats   []*Term
}

type Decl struct {
	Name string
	Args []Sort
	Ret  Sort
}

var (
	termTable = map[string]*Term{}
	declTable = map[string]*Decl{}
	termCount int
)

func mk(op, name string, sort Sort, args ...*Term) *Term {
	var sb strings.Builder
	sb.WriteString(op)
	sb.WriteByte('|')
	sb.WriteString(name)
	sb.WriteByte('|')
	sb.WriteString(string(sort))
	bound := op == "bvar"
	for _, a := range args {
		fmt.Fprintf(&sb, ",%d", a.id)
		if a.bound {
			bound = true
		}
	}
	k := sb.String()
	if t, ok := termTable[k]; ok {
		return t
	}
	termCount++
	t := &Term{Op: op, Name: name, Args: args, Sort: sort, id: termCount, bound: bound}
	termTable[k] = t
	return t
}

var (
	True  = mk("true", "", SBool)
	False = mk("false", "", SBool)
	Nil   = Var("nil", SRef)
)

func Var(name string, s Sort) *Term {
	if d, ok := declTable[name]; ok {
		if d.Ret != s || len(d.Args) != 0 {
			// the same name with another sort (parameters of different functions verified in one process):
			// keep them apart by a sort suffix
			suffix := strings.NewReplacer("(", "", ")", "", " ", "_").Replace(string(s))
			return Var(name+"~"+suffix, s)
		}
	} else {
		declTable[name] = &Decl{Name: name, Ret: s}
	}
	return mk("var", name, s)
}

var freshCounter = map[string]int{}

func Fresh(prefix string, s Sort) *Term {
	freshCounter[prefix]++
	return Var(fmt.Sprintf("%s!%d", prefix, freshCounter[prefix]), s)
}

func BVar(name string, s Sort) *Term { return mk("bvar", name, s) }

func App(name string, ret Sort, args ...*Term) *Term {
	if d, ok := declTable[name]; ok {
		if d.Ret != ret || len(d.Args) != len(args) {
			panic(fmt.Sprintf("UF %s redeclared with different signature", name))
		}
	} else {
		as := make([]Sort, len(args))
		for i, a := range args {
			as[i] = a.Sort
		}
		declTable[name] = &Decl{Name: name, Args: as, Ret: ret}
	}
	if len(args) == 0 {
		return Var(name, ret)
	}
	return mk("app", name, ret, args...)
}

func IntLit(v int64) *Term { return mk("int", fmt.Sprint(v), SInt) }

func BigLit(v *big.Int) *Term { return mk("int", v.String(), SInt) }

func IntStr(s string) *Term {
	b, ok := new(big.Int).SetString(s, 0)
	if !ok {
		panic("bad int literal " + s)
	}
	return BigLit(b)
}

func (t *Term) IsLit() bool { return t.Op == "int" }

func (t *Term) Big() *big.Int {
	b, _ := new(big.Int).SetString(t.Name, 10)
	return b
}

func BoolLit(b bool) *Term {
	if b {
		return True
	}
	return False
}

func Not(a *Term) *Term {
	switch {
	case a == True:
		return False
	case a == False:
		return True
	case a.Op == "not":
		return a.Args[0]
	}
	return mk("not", "", SBool, a)
}

func And(as ...*Term) *Term {
	var out []*Term
	seen := map[int]bool{}
	for _, a := range as {
		if a == nil {
			continue
		}
		if a == False {
			return False
		}
		if a == True {
			continue
		}
		if a.Op == "and" {
			for _, b := range a.Args {
				if !seen[b.id] {
					seen[b.id] = true
					out = append(out, b)
				}
			}
			continue
		}
		if !seen[a.id] {
			seen[a.id] = true
			out = append(out, a)
		}
	}
	for _, a := range out {
		if a.Op == "not" && seen[a.Args[0].id] {
			return False
		}
	}
	switch len(out) {
	case 0:
		return True
	case 1:
		return out[0]
	}
	return mk("and", "", SBool, out...)
}

func Or(as ...*Term) *Term {
	var out []*Term
	seen := map[int]bool{}
	for _, a := range as {
		if a == True {
			return True
		}
		if a == False {
			continue
		}
		if a.Op == "or" {
			for _, b := range a.Args {
				if !seen[b.id] {
					seen[b.id] = true
					out = append(out, b)
				}
			}
			continue
		}
		if !seen[a.id] {
			seen[a.id] = true
			out = append(out, a)
		}
	}
	for _, a := range out {
		if a.Op == "not" && seen[a.Args[0].id] {
			return True
		}
	}
	switch len(out) {
	case 0:
		return False
	case 1:
		return out[0]
	}
	return mk("or", "", SBool, out...)
}

func Implies(a, b *Term) *Term {
	if a == True {
		return b
	}
	if a == False || b == True {
		return True
	}
	if b == False {
		return Not(a)
	}
	if a == b {
		return True
	}
	return mk("=>", "", SBool, a, b)
}

func Ite(c, a, b *Term) *Term {
	if c == True {
		return a
	}
	if c == False {
		return b
	}
	if a == b {
		return a
	}
	if a.Sort != b.Sort {
		panic(fmt.Sprintf("ite sort mismatch %s vs %s", a.Sort, b.Sort))
	}
	if a.Sort == SBool {
		if a == True && b == False {
			return c
		}
		if a == False && b == True {
			return Not(c)
		}
	}
	return mk("ite", "", a.Sort, c, a, b)
}

func Eq(a, b *Term) *Term {
	if a == b {
		return True
	}
	if a.Sort != b.Sort {
		panic(fmt.Sprintf("eq sort mismatch %s vs %s (%s = %s)", a.Sort, b.Sort, a, b))
	}
	if a.IsLit() && b.IsLit() {
		return BoolLit(a.Name == b.Name)
	}
	if a.Sort == SBool {
		if a == True {
			return b
		}
		if b == True {
			return a
		}
		if a == False {
			return Not(b)
		}
		if b == False {
			return Not(a)
		}
	}
	if a.id > b.id {
		a, b = b, a
	}
	return mk("=", "", SBool, a, b)
}

func Neq(a, b *Term) *Term { return Not(Eq(a, b)) }

func cmp(op string, a, b *Term) *Term {
	if a.IsLit() && b.IsLit() {
		c := a.Big().Cmp(b.Big())
		switch op {
		case "<":
			return BoolLit(c < 0)
		case "<=":
			return BoolLit(c <= 0)
		case ">":
			return BoolLit(c > 0)
		case ">=":
			return BoolLit(c >= 0)
		}
	}
	if a == b {
		return BoolLit(op == "<=" || op == ">=")
	}
	return mk(op, "", SBool, a, b)
}

func Lt(a, b *Term) *Term { return cmp("<", a, b) }
func Le(a, b *Term) *Term { return cmp("<=", a, b) }
func Gt(a, b *Term) *Term { return cmp("<", b, a) }
func Ge(a, b *Term) *Term { return cmp("<=", b, a) }

func Add(a, b *Term) *Term {
	if a.IsLit() && b.IsLit() {
		return BigLit(new(big.Int).Add(a.Big(), b.Big()))
	}
	if a.IsLit() && a.Name == "0" {
		return b
	}
	if b.IsLit() && b.Name == "0" {
		return a
	}
	return mk("+", "", SInt, a, b)
}

func Sub(a, b *Term) *Term {
	if a.IsLit() && b.IsLit() {
		return BigLit(new(big.Int).Sub(a.Big(), b.Big()))
	}
	if b.IsLit() && b.Name == "0" {
		return a
	}
	if a == b {
		return IntLit(0)
	}
	return mk("-", "", SInt, a, b)
}

func Neg(a *Term) *Term { return Sub(IntLit(0), a) }

func Mul(a, b *Term) *Term {
	if a.IsLit() && b.IsLit() {
		return BigLit(new(big.Int).Mul(a.Big(), b.Big()))
	}
	if a.IsLit() && a.Name == "1" {
		return b
	}
	if b.IsLit() && b.Name == "1" {
		return a
	}
	if (a.IsLit() && a.Name == "0") || (b.IsLit() && b.Name == "0") {
		return IntLit(0)
	}
	return mk("*", "", SInt, a, b)
}

// EDiv / EMod are SMT-LIB (Euclidean) div and mod.
func EDiv(a, b *Term) *Term {
	if a.IsLit() && b.IsLit() && b.Big().Sign() != 0 {
		q, _ := new(big.Int).DivMod(a.Big(), b.Big(), new(big.Int))
		return BigLit(q)
	}
	return mk("div", "", SInt, a, b)
}

func EMod(a, b *Term) *Term {
	if a.IsLit() && b.IsLit() && b.Big().Sign() != 0 {
		_, m := new(big.Int).DivMod(a.Big(), b.Big(), new(big.Int))
		return BigLit(m)
	}
	return mk("mod", "", SInt, a, b)
}

// TDiv / TRem are Go's truncated division and remainder.
func TDiv(a, b *Term) *Term {
	if a.IsLit() && b.IsLit() && b.Big().Sign() != 0 {
		return BigLit(new(big.Int).Quo(a.Big(), b.Big()))
	}
	z := IntLit(0)
	return Ite(Ge(a, z),
		Ite(Gt(b, z), EDiv(a, b), Neg(EDiv(a, Neg(b)))),
		Ite(Gt(b, z), Neg(EDiv(Neg(a), b)), EDiv(Neg(a), Neg(b))))
}

func TRem(a, b *Term) *Term {
	if a.IsLit() && b.IsLit() && b.Big().Sign() != 0 {
		return BigLit(new(big.Int).Rem(a.Big(), b.Big()))
	}
	z := IntLit(0)
	absb := Ite(Gt(b, z), b, Neg(b))
	return Ite(Ge(a, z), EMod(a, absb), Neg(EMod(Neg(a), absb)))
}

func Select(arr, idx *Term) *Term {
	is, es := arr.Sort.ArrayParts()
	if idx.Sort != is {
		panic(fmt.Sprintf("select index sort %s, want %s", idx.Sort, is))
	}
	// read-over-write with syntactically decidable index
	if arr.Op == "store" {
		if arr.Args[1] == idx {
			return arr.Args[2]
		}
		if arr.Args[1].IsLit() && idx.IsLit() {
			return Select(arr.Args[0], idx)
		}
	}
	if arr.Op == "const-array" {
		return arr.Args[0]
	}
	return mk("select", "", es, arr, idx)
}

func Store(arr, idx, val *Term) *Term {
	is, es := arr.Sort.ArrayParts()
	if idx.Sort != is || val.Sort != es {
		panic(fmt.Sprintf("store sorts: arr %s idx %s val %s", arr.Sort, idx.Sort, val.Sort))
	}
	return mk("store", "", arr.Sort, arr, idx, val)
}

func ConstArray(s Sort, v *Term) *Term { return mk("const-array", "", s, v) }

func Forall(vars []*Term, body *Term, pats ...*Term) *Term {
	if body == True {
		return True
	}
	args := append(append([]*Term{}, vars...), body)
	t := mk("forall", fmt.Sprint(len(vars)), SBool, args...)
	t.NBound = len(vars)
	t.bound = false
	for _, v := range freeBound(body, vars) {
		_ = v
		t.bound = true
	}
	return t
}

func Exists(vars []*Term, body *Term) *Term {
	if body == False {
		return False
	}
	args := append(append([]*Term{}, vars...), body)
	t := mk("exists", fmt.Sprint(len(vars)), SBool, args...)
	t.NBound = len(vars)
	t.bound = false
	for range freeBound(body, vars) {
		t.bound = true
	}
	return t
}

// freeBound returns bound variables occurring in t other than those in vars.
func freeBound(t *Term, vars []*Term) []*Term {
	if !t.bound {
		return nil
	}
	skip := map[int]bool{}
	for _, v := range vars {
		skip[v.id] = true
	}
	var out []*Term
	seen := map[int]bool{}
	var walk func(t *Term, skip map[int]bool)
	walk = func(t *Term, skip map[int]bool) {
		if !t.bound || seen[t.id] {
			return
		}
		if t.Op == "bvar" {
			if !skip[t.id] {
				out = append(out, t)
			}
			return
		}
		if t.Op == "forall" || t.Op == "exists" {
			s2 := map[int]bool{}
			for k := range skip {
				s2[k] = true
			}
			for _, v := range t.Args[:t.NBound] {
				s2[v.id] = true
			}
			walk(t.Args[t.NBound], s2)
			return
		}
		seen[t.id] = true
		for _, a := range t.Args {
			walk(a, skip)
		}
	}
	walk(t, skip)
	return out
}

// Subst replaces variables (by term identity) in t.
func Subst(t *Term, m map[*Term]*Term) *Term {
	cache := map[int]*Term{}
	var rec func(t *Term) *Term
	rec = func(t *Term) *Term {
		if r, ok := m[t]; ok {
			return r
		}
		if len(t.Args) == 0 {
			return t
		}
		if r, ok := cache[t.id]; ok {
			return r
		}
		changed := false
		na := make([]*Term, len(t.Args))
		for i, a := range t.Args {
			na[i] = rec(a)
			if na[i] != a {
				changed = true
			}
		}
		r := t
		if changed {
			r = rebuild(t, na)
		}
		cache[t.id] = r
		return r
	}
	return rec(t)
}

func rebuild(t *Term, a []*Term) *Term {
	switch t.Op {
	case "not":
		return Not(a[0])
	case "and":
		return And(a...)
	case "or":
		return Or(a...)
	case "=>":
		return Implies(a[0], a[1])
	case "ite":
		return Ite(a[0], a[1], a[2])
	case "=":
		return Eq(a[0], a[1])
	case "<", "<=":
		return cmp(t.Op, a[0], a[1])
	case "+":
		return Add(a[0], a[1])
	case "-":
		return Sub(a[0], a[1])
	case "*":
		return Mul(a[0], a[1])
	case "div":
		return EDiv(a[0], a[1])
	case "mod":
		return EMod(a[0], a[1])
	case "select":
		return Select(a[0], a[1])
	case "store":
		return Store(a[0], a[1], a[2])
	case "const-array":
		return ConstArray(t.Sort, a[0])
	case "app":
		return mk("app", t.Name, t.Sort, a...)
	case "forall":
		return Forall(a[:t.NBound], a[t.NBound])
	case "exists":
		return Exists(a[:t.NBound], a[t.NBound])
	}
	panic("rebuild: " + t.Op)
}

func (t *Term) String() string {
	var sb strings.Builder
	printTerm(&sb, t, nil)
	return sb.String()
}

func smtName(n string) string {
	for _, ch := range n {
		if !(ch >= 'a' && ch <= 'z' || ch >= 'A' && ch <= 'Z' || ch >= '0' && ch <= '9' || strings.ContainsRune("_.!$@~^&*-+<>?/", ch)) {
			return "|" + n + "|"
		}
	}
	return n
}

func printTerm(sb *strings.Builder, t *Term, named map[int]string) {
	if n, ok := named[t.id]; ok {
		sb.WriteString(n)
		return
	}
	switch t.Op {
	case "true", "false":
		sb.WriteString(t.Op)
	case "int":
		if strings.HasPrefix(t.Name, "-") {
			sb.WriteString("(- " + t.Name[1:] + ")")
		} else {
			sb.WriteString(t.Name)
		}
	case "var", "bvar":
		sb.WriteString(smtName(t.Name))
	case "const-array":
		sb.WriteString("((as const " + string(t.Sort) + ") ")
		printTerm(sb, t.Args[0], named)
		sb.WriteString(")")
	case "forall", "exists":
		sb.WriteString("(" + t.Op + " (")
		for _, v := range t.Args[:t.NBound] {
			sb.WriteString("(" + smtName(v.Name) + " " + string(v.Sort) + ")")
		}
		sb.WriteString(") ")
		printTerm(sb, t.Args[t.NBound], named)
		sb.WriteString(")")
	default:
		sb.WriteString("(")
		if t.Op == "app" {
			sb.WriteString(smtName(t.Name))
		} else {
			sb.WriteString(t.Op)
		}
		for _, a := range t.Args {
			sb.WriteString(" ")
			printTerm(sb, a, named)
		}
		sb.WriteString(")")
	}
}

// Script renders hyps ∧ ¬goal as an SMT-LIB 2 script.  Shared closed subterms
// are hoisted into define-fun so that the text stays linear in the DAG size.
func Script(hyps []*Term, goal *Term, getValues []*Term) string {
	roots := append(append([]*Term{}, hyps...), goal)
	roots = append(roots, getValues...)
	refs := map[int]int{}
	var order []*Term
	decls := map[string]*Decl{}
	usesRef := false
	var walk func(t *Term)
	walk = func(t *Term) {
		refs[t.id]++
		if refs[t.id] > 1 {
			return
		}
		if strings.Contains(string(t.Sort), "Ref") {
			usesRef = true
		}
		if t.Op == "var" || t.Op == "app" {
			decls[t.Name] = declTable[t.Name]
			for _, s := range declTable[t.Name].Args {
				if strings.Contains(string(s), "Ref") {
					usesRef = true
				}
			}
		}
		for _, a := range t.Args {
			walk(a)
		}
		order = append(order, t)
	}
	for _, r := range roots {
		walk(r)
	}
	var sb strings.Builder
	sb.WriteString("(set-option :produce-models true)\n(set-logic ALL)\n")
	if usesRef {
		sb.WriteString("(declare-sort Ref 0)\n")
	}
	names := make([]string, 0, len(decls))
	for n := range decls {
		names = append(names, n)
	}
	sort.Strings(names)
	for _, n := range names {
		d := decls[n]
		sb.WriteString("(declare-fun " + smtName(n) + " (")
		for i, a := range d.Args {
			if i > 0 {
				sb.WriteString(" ")
			}
			sb.WriteString(string(a))
		}
		sb.WriteString(") " + string(d.Ret) + ")\n")
	}
	named := map[int]string{}
	for _, t := range order {
		if refs[t.id] > 1 && !t.bound && len(t.Args) > 0 {
			var b strings.Builder
			printTerm(&b, t, named)
			n := fmt.Sprintf("$t%d", t.id)
			sb.WriteString("(define-fun " + n + " () " + string(t.Sort) + " " + b.String() + ")\n")
			named[t.id] = n
		}
	}
	for _, h := range hyps {
		sb.WriteString("(assert ")
		printTerm(&sb, h, named)
		sb.WriteString(")\n")
	}
	sb.WriteString("(assert (not ")
	printTerm(&sb, goal, named)
	sb.WriteString("))\n(check-sat)\n")
	if len(getValues) > 0 {
		sb.WriteString("(get-value (")
		for i, v := range getValues {
			if i > 0 {
				sb.WriteString(" ")
			}
			printTerm(&sb, v, named)
		}
		sb.WriteString("))\n")
	}
	return sb.String()
}

// Size returns the DAG size of the terms.
func Size(ts ...*Term) int {
	seen := map[int]bool{}
	var walk func(t *Term)
	walk = func(t *Term) {
		if seen[t.id] {
			return
		}
		seen[t.id] = true
		for _, a := range t.Args {
			walk(a)
		}
	}
	for _, t := range ts {
		walk(t)
	}
	return len(seen)
}
