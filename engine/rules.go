package main

// Syntactic frame tables over a whole package: who may assign a field, who may call
// a callback, which stdlib functions may not be called at all.

import (
	"fmt"
	"go/ast"
	"go/types"
	"sort"
	"strings"
)

var wallClockFuncs = map[string]bool{
	"time.Now": true, "time.Since": true, "time.Until": true, "time.After": true, "time.Sleep": true,
	"time.Tick": true, "time.AfterFunc": true, "time.NewTimer": true, "time.NewTicker": true,
}

func CheckRules(w *World, pi *PkgInfo) []*Obligation {
	var out []*Obligation
	if len(pi.Contracts.Writers) == 0 {
		return nil
	}
	x := newExec(w, pi, &FuncInfo{Pkg: pi, Key: "rules"})
	type hit struct {
		fn  string
		pos string
	}
	writes := map[string][]hit{} // static key -> functions assigning it
	calls := map[string][]hit{}  // callee name -> functions calling it
	var keys []string
	for k := range pi.Funcs {
		keys = append(keys, k)
	}
	sort.Strings(keys)
	info := pi.P.TypesInfo
	for _, k := range keys {
		fi := pi.Funcs[k]
		ws := &writeSet{x: x, keys: map[string]bool{}}
		noteW := func(e ast.Expr) {
			if id, ok := unparen(e).(*ast.Ident); ok && id.Name == "_" {
				return
			}
			if key, _, ok := ws.keyOf(e, info, pi); ok {
				writes[key] = append(writes[key], hit{k, x.pos(e.Pos())})
			}
		}
		ast.Inspect(fi.Decl.Body, func(n ast.Node) bool {
			switch s := n.(type) {
			case *ast.AssignStmt:
				for _, l := range s.Lhs {
					noteW(l)
				}
			case *ast.IncDecStmt:
				noteW(s.X)
			case *ast.CallExpr:
				fun := unparen(s.Fun)
				if ie, ok := fun.(*ast.IndexExpr); ok {
					fun = unparen(ie.X)
				}
				switch f := fun.(type) {
				case *ast.Ident:
					switch o := info.Uses[f].(type) {
					case *types.Builtin:
						if o.Name() == "clear" || o.Name() == "delete" || o.Name() == "copy" {
							noteW(s.Args[0])
						}
					case *types.Func:
						calls[o.Name()] = append(calls[o.Name()], hit{k, x.pos(s.Pos())})
					}
				case *ast.SelectorExpr:
					if sel, ok := info.Selections[f]; ok {
						switch sel.Kind() {
						case types.FieldVal:
							owner, _ := (&Ctx{x: x}).walkPathOwner(sel.Recv(), sel.Index())
							n := owner + "." + f.Sel.Name
							calls[n] = append(calls[n], hit{k, x.pos(s.Pos())})
						case types.MethodVal:
							fo := sel.Obj().(*types.Func)
							if cf := w.FuncOf(fo); cf != nil {
								calls[cf.Key] = append(calls[cf.Key], hit{k, x.pos(s.Pos())})
							} else if !isInterfaceMethod(fo.Origin()) {
								calls[fo.Origin().FullName()] = append(calls[fo.Origin().FullName()], hit{k, x.pos(s.Pos())})
							}
							for _, n := range ifaceMethodNames(fo.Origin(), Value{T: sel.Recv()}) {
								calls[n] = append(calls[n], hit{k, x.pos(s.Pos())})
							}
						}
					} else if fo, ok := info.Uses[f.Sel].(*types.Func); ok {
						calls[fo.FullName()] = append(calls[fo.FullName()], hit{k, x.pos(s.Pos())})
					}
				}
			}
			return true
		})
	}
	// every REFERENCE to a wall-clock function counts (a call, a method value, `var now = time.Now`), also at package level
	callFuns := map[ast.Expr]bool{}
	for _, f := range pi.P.Syntax {
		ast.Inspect(f, func(n ast.Node) bool {
			if ce, ok := n.(*ast.CallExpr); ok {
				callFuns[unparen(ce.Fun)] = true
			}
			return true
		})
	}
	for _, f := range pi.P.Syntax {
		var encl string
		for _, decl := range f.Decls {
			encl = "package level"
			if fd, ok := decl.(*ast.FuncDecl); ok {
				encl = fd.Name.Name
				for k2, fi := range pi.Funcs {
					if fi.Decl == fd {
						encl = k2
					}
				}
			}
			enclName := encl
			ast.Inspect(decl, func(n ast.Node) bool {
				se, ok := n.(*ast.SelectorExpr)
				if !ok || callFuns[se] {
					return true
				}
				if fo, ok := info.Uses[se.Sel].(*types.Func); ok && wallClockFuncs[fo.FullName()] {
					calls[fo.FullName()] = append(calls[fo.FullName()], hit{enclName, x.pos(se.Pos())})
				}
				return true
			})
		}
	}
	mk := func(r *WriterRule, name string, ok bool, pos, clause string) {
		g := True
		if !ok {
			g = False
		}
		out = append(out, &Obligation{Name: pi.Name + ".rule/" + name, Kind: "frame-table", Tags: r.Tags, Func: "package " + pi.Name,
			Pkg: pi.Name, Pos: pos, Clause: clause, Goal: g, Solver: "syntactic"})
	}
	allowed := func(r *WriterRule, fn string) bool {
		for _, a := range r.Allowed {
			if a == fn {
				return true
			}
		}
		return false
	}
	for _, r := range pi.Contracts.Writers {
		switch r.Kind {
		case "writers":
			bad := false
			for _, key := range x.expandLocSafe(r.Subject) {
				for _, h := range writes[key] {
					if !allowed(r, h.fn) {
						bad = true
						mk(r, fmt.Sprintf("writers:%s@%s", r.Subject, h.fn), false, h.pos, fmt.Sprintf("%s may be assigned only in %v", r.Subject, r.Allowed))
					}
				}
			}
			if !bad {
				mk(r, "writers:"+r.Subject, true, fmt.Sprintf("contracts:%d", r.Line), fmt.Sprintf("%s is assigned only in %v", r.Subject, r.Allowed))
			}
		case "callers":
			bad := false
			for _, h := range calls[r.Subject] {
				if !allowed(r, h.fn) {
					bad = true
					mk(r, fmt.Sprintf("callers:%s@%s", r.Subject, h.fn), false, h.pos, fmt.Sprintf("%s may be called only from %v", r.Subject, r.Allowed))
				}
			}
			if !bad {
				mk(r, "callers:"+r.Subject, true, fmt.Sprintf("contracts:%d", r.Line), fmt.Sprintf("%s is called only from %v (%d call sites)", r.Subject, r.Allowed, len(calls[r.Subject])))
			}
		case "forbid":
			if r.Subject == "timeapi" {
				// methods of time.Time other than the listed ones must not be called at all
				bad := false
				var names []string
				for n := range calls {
					if strings.HasPrefix(n, "(time.Time).") {
						names = append(names, n)
					}
				}
				sort.Strings(names)
				for _, n := range names {
					if allowed(r, n) {
						continue
					}
					for _, h := range calls[n] {
						bad = true
						mk(r, fmt.Sprintf("timeapi:%s@%s", n, h.fn), false, h.pos, fmt.Sprintf("only %v of time.Time may be used (time values are only compared by difference or turned into a payload timestamp)", r.Allowed))
					}
				}
				if !bad {
					mk(r, "timeapi", true, fmt.Sprintf("contracts:%d", r.Line), fmt.Sprintf("the only time.Time methods used in the package are among %v", r.Allowed))
				}
			}
			if r.Subject == "wallclock" {
				bad := false
				var names []string
				for n := range wallClockFuncs {
					names = append(names, n)
				}
				sort.Strings(names)
				for _, n := range names {
					for _, h := range calls[n] {
						if !allowed(r, h.fn) {
							bad = true
							mk(r, fmt.Sprintf("wallclock:%s@%s", n, h.fn), false, h.pos, "package must not read the machine clock (time enters only through the injected Timer)")
						}
					}
				}
				if !bad {
					mk(r, "wallclock", true, fmt.Sprintf("contracts:%d", r.Line), "no function of the package calls time.Now/Since/Until/After/Sleep/Tick/AfterFunc/NewTimer/NewTicker")
				}
			}
		}
	}
	return out
}

func (x *Exec) expandLocSafe(l string) (keys []string) {
	defer func() {
		if r := recover(); r != nil {
			keys = []string{"S:" + l}
		}
	}()
	return x.expandLoc(l, nil)
}
