package main

// Calls: conversions, builtins, inlining, modular (contract) calls, externs, intrinsics.

import (
	"fmt"
	"go/ast"
	"go/token"
	"go/types"
	"strings"
)

func unparen(e ast.Expr) ast.Expr {
	for {
		p, ok := e.(*ast.ParenExpr)
		if !ok {
			return e
		}
		e = p.X
	}
}

func (c *Ctx) evalArgs(args []ast.Expr) []Value {
	out := make([]Value, len(args))
	for i, a := range args {
		out[i] = c.eval(a)
	}
	return out
}

func (c *Ctx) evalCall(e *ast.CallExpr) Value {
	x := c.x
	fun := unparen(e.Fun)
	if c.spec && c.info == nil {
		if id, ok := fun.(*ast.Ident); ok {
			if v, ok := c.specCall(id.Name, e); ok {
				return v
			}
		}
	}
	if c.info != nil {
		if tv, ok := c.info.Types[fun]; ok && tv.IsType() {
			return c.convert(c.eval(e.Args[0]), tv.Type, e)
		}
		switch f := fun.(type) {
		case *ast.IndexExpr:
			if tv, ok := c.info.Types[f.Index]; ok && tv.IsType() {
				fun = unparen(f.X)
			}
		case *ast.IndexListExpr:
			fun = unparen(f.X)
		}
		if id, ok := fun.(*ast.Ident); ok {
			switch o := c.info.Uses[id].(type) {
			case *types.Builtin:
				return c.builtin(o.Name(), e)
			case *types.Func:
				return c.callFunc(o, Value{Kind: KNone}, c.evalArgs(e.Args), e)
			case *types.Var:
				return c.callValue(fun, e)
			}
			panic(engineErr("%s: call of %s not supported", x.pos(e.Pos()), id.Name))
		}
		if sel, ok := fun.(*ast.SelectorExpr); ok {
			if s, ok := c.info.Selections[sel]; ok {
				base := c.eval(sel.X)
				idx := s.Index()
				switch s.Kind() {
				case types.MethodVal:
					if s.Obj().(*types.Func).FullName() == "(*encoding/gob.Decoder).Decode" && !c.spec {
						return c.gobDecode(e, resultType(s.Obj().(*types.Func)))
					}
					if v, ok := c.atomicCall(s.Obj().(*types.Func), sel, e); ok {
						return v
					}
					recv, _ := c.walkPath(base, s.Recv(), idx[:len(idx)-1])
					if recv.Kind == KStruct && !c.spec && hasPtrRecv(s.Obj().(*types.Func)) {
						// method with a pointer receiver called on an addressable by-value struct field
						target := sel.X
						if ip, ok := c.interiorPtr(target); ok && len(idx) == 1 {
							recv = ip
						} else {
							panic(engineErr("%s: pointer-receiver method on the by-value struct %s", x.pos(e.Pos()), exprText(sel.X)))
						}
					}
					return c.callFunc(s.Obj().(*types.Func), recv, c.evalArgs(e.Args), e)
				case types.FieldVal:
					// callback stored in a field
					owner, _ := c.walkPathOwner(s.Recv(), idx)
					return c.callback(owner+"."+sel.Sel.Name, s.Obj().Type(), e)
				}
			}
			if o, ok := c.info.Uses[sel.Sel].(*types.Func); ok {
				return c.callFunc(o, Value{Kind: KNone}, c.evalArgs(e.Args), e)
			}
		}
		if _, ok := fun.(*ast.FuncLit); ok {
			panic(engineErr("%s: call of function literal not supported", x.pos(e.Pos())))
		}
		return c.callValue(fun, e)
	}
	// spec mode (untyped)
	switch f := fun.(type) {
	case *ast.Ident:
		if p, ok := c.pkg.Contracts.Preds[f.Name]; ok {
			return c.callPred(p, e)
		}
		if o, ok := c.pkg.P.Types.Scope().Lookup(f.Name).(*types.Func); ok {
			return c.callFunc(o, Value{Kind: KNone}, c.evalArgs(e.Args), e)
		}
		panic(engineErr("spec: unknown function %q", f.Name))
	case *ast.SelectorExpr:
		base := c.eval(f.X)
		if base.T == nil {
			panic(engineErr("spec: method call %s on a value without Go type", exprText(e)))
		}
		obj, idx, _ := types.LookupFieldOrMethod(base.T, true, c.pkg.P.Types, f.Sel.Name)
		switch o := obj.(type) {
		case *types.Func:
			recv, _ := c.walkPath(base, base.T, idx[:len(idx)-1])
			return c.callFunc(o, recv, c.evalArgs(e.Args), e)
		case *types.Var:
			owner, _ := c.walkPathOwner(base.T, idx)
			return c.callback(owner+"."+f.Sel.Name, o.Type(), e)
		}
		panic(engineErr("spec: cannot resolve %s", exprText(e.Fun)))
	}
	panic(engineErr("spec: call form %s not supported", exprText(e.Fun)))
}

// walkPathOwner returns the name of the struct type declaring the last field of the path.
func (c *Ctx) walkPathOwner(T types.Type, index []int) (string, types.Type) {
	owner := ""
	for _, i := range index {
		T = types.Unalias(T)
		if p, ok := T.Underlying().(*types.Pointer); ok {
			T = p.Elem()
		}
		owner = typeName(T)
		s := types.Unalias(T).Underlying().(*types.Struct)
		T = s.Field(i).Type()
	}
	return owner, T
}

// ---- conversions ---------------------------------------------------------

func (c *Ctx) convert(v Value, T types.Type, e *ast.CallExpr) Value {
	x := c.x
	if v.Kind == KScalar && v.S == Nil {
		return c.coerce(v, T)
	}
	if x.kindOf(T) == KScalar && v.Kind == KScalar {
		ts := x.scalarSort(T)
		if ts == SInt && v.S.Sort == SInt {
			if !c.spec {
				if _, _, ok := intRange(T); ok {
					if c.wraps(e) {
						return Scalar(wrapTo(v.S, T), T)
					}
					needs := true
					if v.T != nil {
						lo1, hi1, ok1 := intRange(v.T)
						lo2, hi2, _ := intRange(T)
						if ok1 && lo1.Cmp(lo2) >= 0 && hi1.Cmp(hi2) <= 0 {
							needs = false
						}
					}
					if needs {
						if lo2, hi2, ok2 := intRange(T); ok2 {
							if bl, bh, known := x.bounds(v.S, 0); known && bl.Cmp(lo2) >= 0 && bh.Cmp(hi2) <= 0 {
								return Scalar(v.S, T) // the value cannot leave the target range
							}
						}
						c.oblige("conv", exprText(e), inRange(v.S, T), e.Pos())
						// integer conversions truncate: model the value faithfully
						return Scalar(Ite(inRange(v.S, T), v.S, wrapTo(v.S, T)), T)
					}
				}
			}
			return Scalar(v.S, T)
		}
		if ts == v.S.Sort {
			return Scalar(v.S, T)
		}
		if ts == SRef {
			return c.coerce(v, T)
		}
		// string(bytes) etc.
		return x.freshValue("conv", T)
	}
	if x.kindOf(T) == v.Kind {
		v.T = T
		return v
	}
	if x.kindOf(T) == KScalar {
		return c.coerce(v, T)
	}
	return x.freshValue("conv", T)
}

// ---- builtins --------------------------------------------------------------

func (c *Ctx) builtin(name string, e *ast.CallExpr) Value {
	x := c.x
	T := c.typeOf(e)
	switch name {
	case "len", "cap":
		v := c.eval(e.Args[0])
		switch v.Kind {
		case KSlice:
			return Scalar(v.Len, types.Typ[types.Int])
		case KMap:
			return Scalar(v.Size, types.Typ[types.Int])
		case KScalar: // string, channel
			l := App("len.opaque", SInt, v.S)
			x.addFact(l, Le(IntLit(0), l))
			return Scalar(l, types.Typ[types.Int])
		}
	case "make":
		switch x.kindOf(T) {
		case KSlice:
			n := c.eval(e.Args[1])
			c.oblige("makelen", exprText(e.Args[1]), Ge(n.S, IntLit(0)), e.Pos())
			v := x.zeroValue(T)
			v.Len = n.S
			v.IsNil = False
			v.Own = true
			if _, _, isStruct := x.isRepoStruct(elemType(T)); isStruct && !c.spec {
				c.makeObjects(&v, elemType(T))
			}
			return v
		case KMap:
			for _, a := range e.Args[1:] {
				c.eval(a)
			}
			v := x.zeroValue(T)
			v.IsNil = False
			return v
		default:
			return c.makeChan(e, T)
		}
	case "new":
		eT := c.typeOf(e.Args[0])
		if _, _, ok := x.isRepoStruct(eT); ok && !x.isOpaqueNamed(eT) && !c.spec {
			return c.alloc(x.zeroValue(eT), T)
		}
		if x.isBoxed(eT) && !c.spec {
			return c.allocBox(eT, x.zeroValue(eT), T)
		}
		r := Fresh("new", SRef)
		x.addFact(r, Neq(r, Nil))
		return Scalar(r, T)
	case "append":
		s := c.eval(e.Args[0])
		if s.Kind != KSlice {
			s = c.coerce(s, T)
		}
		if e.Ellipsis.IsValid() {
			t := c.eval(e.Args[1])
			r := Value{Kind: KSlice, T: T, Arr: Fresh("append.arr", s.Arr.Sort), Len: Add(s.Len, t.Len), IsNil: And(s.IsNil, Eq(t.Len, IntLit(0)))}
			// appending to a nil slice, or to one this function allocated, gives a store this function owns
			r.Own = s.Own || s.IsNil == True || isNilSliceExpr(e.Args[0])
			i := BVar("i!app", SInt)
			x.addFact(r.Arr, And(
				Forall([]*Term{i}, Implies(And(Le(IntLit(0), i), Lt(i, s.Len)), Eq(Select(r.Arr, i), Select(s.Arr, i)))),
				Forall([]*Term{i}, Implies(And(Le(s.Len, i), Lt(i, r.Len)), Eq(Select(r.Arr, i), Select(t.Arr, Sub(i, s.Len)))))))
			return r
		}
		r := s
		r.T = T
		for _, a := range e.Args[1:] {
			v := c.boxElem(c.coerce(c.eval(a), elemType(T)), elemType(T))
			r.Arr = Store(r.Arr, r.Len, v.S)
			r.Len = Add(r.Len, IntLit(1))
			r.IsNil = False
		}
		return r
	case "clear":
		v := c.eval(e.Args[0])
		switch v.Kind {
		case KSlice:
			es := sortOfArrElem(v.Arr)
			v.Arr = ConstArray(v.Arr.Sort, zeroOfSort(es))
		case KMap:
			es := sortOfArrElem(v.Arr)
			v.Arr = ConstArray(v.Arr.Sort, zeroOfSort(es))
			v.Has = ConstArray(v.Has.Sort, False)
			v.Size = IntLit(0)
		}
		c.x.assign(c, e.Args[0], v)
		return Value{Kind: KNone}
	case "delete":
		m := c.eval(e.Args[0])
		k := c.eval(e.Args[1])
		had := Select(m.Has, k.S)
		m.Size = Sub(m.Size, Ite(had, IntLit(1), IntLit(0)))
		m.Has = Store(m.Has, k.S, False)
		c.x.assign(c, e.Args[0], m)
		return Value{Kind: KNone}
	case "min", "max":
		vs := c.evalArgs(e.Args)
		r := vs[0].S
		for _, v := range vs[1:] {
			if name == "min" {
				r = Ite(Le(r, v.S), r, v.S)
			} else {
				r = Ite(Ge(r, v.S), r, v.S)
			}
		}
		return Scalar(r, T)
	case "copy":
		dst := c.eval(e.Args[0])
		src := c.eval(e.Args[1])
		n := Ite(Le(dst.Len, src.Len), dst.Len, src.Len)
		na := Fresh("copy.arr", dst.Arr.Sort)
		i := BVar("i!cp", SInt)
		x.addFact(na, Forall([]*Term{i}, Eq(Select(na, i), Ite(And(Le(IntLit(0), i), Lt(i, n)), Select(src.Arr, i), Select(dst.Arr, i)))))
		dst.Arr = na
		c.x.assign(c, e.Args[0], dst)
		return Scalar(n, types.Typ[types.Int])
	case "panic":
		c.evalArgs(e.Args)
		c.oblige("panic", "explicit", False, e.Pos())
		c.st.assume(False)
		return Value{Kind: KNone}
	}
	panic(engineErr("%s: builtin %s not supported", x.pos(e.Pos()), name))
}

// ---- function calls ----------------------------------------------------------

func ifaceMethodNames(o *types.Func, recv Value) []string {
	var names []string
	if sig, ok := o.Type().(*types.Signature); ok && sig.Recv() != nil {
		if n := typeName(sig.Recv().Type()); n != "" {
			names = append(names, n+"."+o.Name())
		}
	}
	if recv.T != nil {
		if n := typeName(recv.T); n != "" {
			names = append(names, n+"."+o.Name())
		}
	}
	return names
}

func hasPtrRecv(o *types.Func) bool {
	sig, ok := o.Type().(*types.Signature)
	if !ok || sig.Recv() == nil {
		return false
	}
	_, isPtr := types.Unalias(sig.Recv().Type()).Underlying().(*types.Pointer)
	return isPtr
}

func isInterfaceMethod(o *types.Func) bool {
	sig, ok := o.Type().(*types.Signature)
	if !ok || sig.Recv() == nil {
		return false
	}
	return types.IsInterface(sig.Recv().Type())
}

func resultType(o *types.Func) types.Type {
	sig := o.Type().(*types.Signature)
	switch sig.Results().Len() {
	case 0:
		return nil
	case 1:
		return sig.Results().At(0).Type()
	}
	return sig.Results()
}

// atCall evaluates the "at call X: assert ..." clauses of the enclosing function's contract.
func (c *Ctx) atCall(e *ast.CallExpr, args []Value) {
	if c.spec || c.fr == nil || c.fr.fi == nil || c.fr.fi.Spec == nil || e == nil {
		return
	}
	var specs []*CallSpec
	if cs := c.fr.fi.Spec.AtCall[exprText(e.Fun)]; cs != nil {
		specs = append(specs, cs)
	}
	// "at call *.M:" applies to every call of a method (or field callback) named M, whatever the receiver expression is
	if se, ok := unparen(e.Fun).(*ast.SelectorExpr); ok {
		if cs := c.fr.fi.Spec.AtCall["*."+se.Sel.Name]; cs != nil {
			specs = append(specs, cs)
		}
	}
	// "at call f<T>:" applies to the calls of f whose first argument is a T or a *T
	if len(e.Args) > 0 && c.info != nil {
		if n := typeName(pointee(c.typeOf(e.Args[0]))); n != "" {
			if cs := c.fr.fi.Spec.AtCall[exprText(e.Fun)+"<"+n+">"]; cs != nil {
				specs = append(specs, cs)
			}
			if se, ok := unparen(e.Fun).(*ast.SelectorExpr); ok {
				if cs := c.fr.fi.Spec.AtCall["*."+se.Sel.Name+"<"+n+">"]; cs != nil {
					specs = append(specs, cs)
				}
			}
		}
	}
	if len(specs) == 0 {
		return
	}
	vars := map[string]Value{}
	for k, v := range c.x.entryVars(c.fr) {
		vars[k] = v
	}
	for i, a := range args {
		vars[fmt.Sprintf("arg%d", i)] = a
	}
	if c.curRecv.Kind != KNone {
		vars["recv"] = c.curRecv
	}
	for _, cs := range specs {
		for _, a := range cs.Asserts {
			g := c.specEval(a.Expr, c.st, c.x.entryState(c.fr), vars)
			c.x.oblige(c.st, "assert", exprText(e.Fun)+clauseLabel(a), c.x.tagsOr(a.Tags, c.fr), g, e.Pos(), a.Text)
		}
		for _, g := range cs.Ghosts {
			c.execGhost(g, vars, c.x.entryState(c.fr))
		}
	}
}

func (c *Ctx) callFunc(o *types.Func, recv Value, args []Value, e *ast.CallExpr) Value {
	x := c.x
	o = o.Origin()
	c.curRecv = recv
	c.atCall(e, args)
	c.curRecv = Value{}
	if fi := x.w.FuncOf(o); fi != nil {
		// usage contracts: another package may describe this function by an assumed (extern) contract
		if fi.Pkg != x.pkg {
			if sp := c.findExtern(fi.Pkg.Name + "." + fi.Key); sp != nil {
				return c.externCall(fi.Pkg.Name+"."+fi.Key, sp, resultType(o), recv, args, e)
			}
		}
		if fi.Spec != nil && !fi.Spec.Inline && fi.Spec.Trusted == "" && !c.spec {
			return c.modularCall(fi, recv, args, e)
		}
		if fi.Spec != nil && fi.Spec.Trusted != "" {
			return c.modularCall(fi, recv, args, e)
		}
		if c.spec && fi.Spec != nil && !fi.Spec.Inline && hasLoop(fi.Decl.Body) {
			return c.specModular(fi, recv, args, e)
		}
		return c.inlineCall(fi, recv, args, e)
	}
	if isInterfaceMethod(o) {
		if !c.spec && recv.Kind == KScalar && recv.S.Sort == SRef {
			c.oblige("nil", exprText(e.Fun), Neq(recv.S, Nil), e.Pos())
		}
		for _, n := range ifaceMethodNames(o, recv) {
			if c.contractsAll(func(k *Contracts) bool { return k.Pure[n] }) {
				return c.pureUF(n, resultType(o), recv, args)
			}
			if sp := c.findExtern(n); sp != nil {
				return c.externCall(n, sp, resultType(o), recv, args, e)
			}
		}
		n := ifaceMethodNames(o, recv)
		nm := o.Name()
		if len(n) > 0 {
			nm = n[len(n)-1]
		}
		if c.spec {
			panic(engineErr("spec: method %s is not declared pure", nm))
		}
		x.warn("unmodelled interface method %s: arbitrary result, no effect on the instance", nm)
		return c.arbitrary("call."+nm, resultType(o))
	}
	return c.intrinsic(o, recv, args, e)
}

func (c *Ctx) contractsAll(f func(*Contracts) bool) bool {
	if f(c.x.contracts()) {
		return true
	}
	if c.pkg != nil && f(c.pkg.Contracts) {
		return true
	}
	return false
}

func (c *Ctx) findExtern(n string) *FuncSpec {
	if sp := c.x.contracts().Externs[n]; sp != nil {
		return sp
	}
	if c.pkg != nil {
		return c.pkg.Contracts.Externs[n]
	}
	return nil
}

func (c *Ctx) arbitrary(prefix string, T types.Type) Value {
	if T == nil {
		return Value{Kind: KNone}
	}
	return c.x.freshValue(prefix, T)
}

// pureUF: the result is an uninterpreted function of receiver and arguments.
func (c *Ctx) pureUF(name string, T types.Type, recv Value, args []Value) Value {
	x := c.x
	var ts []*Term
	if recv.Kind == KScalar {
		ts = append(ts, recv.S)
	}
	for _, a := range args {
		switch a.Kind {
		case KScalar:
			ts = append(ts, a.S)
		case KSlice:
			ts = append(ts, a.Arr, a.Len)
		case KPtr:
		default:
			panic(engineErr("pure %s: argument kind not supported", name))
		}
	}
	if T == nil {
		return Value{Kind: KNone}
	}
	return x.symbolic("uf."+name, T, func(n string, s Sort) *Term { return App(n, s, ts...) })
}

func (c *Ctx) callback(name string, T types.Type, e *ast.CallExpr) Value {
	x := c.x
	sig, _ := types.Unalias(T).Underlying().(*types.Signature)
	if sig == nil {
		panic(engineErr("%s: call of non-function field %s", x.pos(e.Pos()), name))
	}
	args := c.evalArgs(e.Args)
	c.atCall(e, args)
	var rt types.Type
	switch sig.Results().Len() {
	case 0:
	case 1:
		rt = sig.Results().At(0).Type()
	default:
		rt = sig.Results()
	}
	if !c.spec {
		// calling a nil callback panics
		if sel, ok := unparen(e.Fun).(*ast.SelectorExpr); ok && c.info != nil {
			fv := c.evalSelector(sel)
			if fv.Kind == KScalar && fv.S.Sort == SRef {
				c.oblige("nilfunc", name, Neq(fv.S, Nil), e.Pos())
			}
		}
	}
	if c.contractsAll(func(k *Contracts) bool { return k.Pure[name] }) {
		return c.pureUF(name, rt, Value{Kind: KNone}, args)
	}
	if sp := c.findExtern(name); sp != nil {
		return c.externCall(name, sp, rt, Value{Kind: KNone}, args, e)
	}
	if c.spec {
		panic(engineErr("spec: callback %s is not declared pure", name))
	}
	x.warn("unmodelled callback %s: arbitrary result, no effect on the instance", name)
	return c.arbitrary("call."+name, rt)
}

func (c *Ctx) callFuncValue(name string, e *ast.CallExpr) Value {
	c.evalArgs(e.Args)
	panic(engineErr("%s: call through function value %s not supported", c.x.pos(e.Pos()), name))
}

// externCall applies an assumed contract of a callback / interface method / stdlib function.
func (c *Ctx) externCall(name string, sp *FuncSpec, rt types.Type, recv Value, args []Value, e *ast.CallExpr) Value {
	x := c.x
	vars := map[string]Value{}
	for i, p := range sp.Params {
		if i < len(args) {
			vars[p] = args[i]
		}
	}
	if recv.Kind != KNone {
		vars["recv"] = recv
	}
	for i, a := range args {
		vars[fmt.Sprintf("arg%d", i)] = a
	}
	pre := c.st.Clone()
	if !c.spec {
		for _, r := range sp.Requires {
			g := c.specEval(r.Expr, c.st, nil, vars)
			x.oblige(c.st, "callpre", name+clauseLabel(r), x.tagsOr(r.Tags, c.fr), g, e.Pos(), r.Text)
		}
	}
	if sp.Terminate {
		c.st.assume(False)
		return c.arbitrary("call."+name, rt)
	}
	var res Value
	if sp.Pure {
		res = c.pureUF(name, rt, recv, args)
	} else {
		res = c.arbitrary("call."+name, rt)
	}
	if c.spec {
		return res
	}
	if sp.HasMod {
		c.havocList(sp.Modifies, nil)
	}
	vars["result"] = res
	if res.Kind == KTuple {
		for i, el := range res.Elems {
			vars[fmt.Sprintf("result%d", i)] = el
		}
	}
	for _, g := range sp.Ghosts {
		c.execGhost(g, vars, pre)
	}
	for _, en := range sp.Ensures {
		c.st.assume(c.specEval(en.Expr, c.st, pre, vars))
	}
	return res
}

func clauseLabel(cl *Clause) string {
	if cl.Label != "" {
		return ":" + cl.Label
	}
	return ""
}

// supportTag marks the obligation of a contract clause that carries no property tag: such a clause supports the
// proofs of all the tagged clauses around it (callers assume it), so it counts for every property that has a tagged
// clause in the contract of the function being verified (check.go), besides the package's run tags.
const supportTag = "§support"

func byteOrderName(full string) string {
	if strings.Contains(full, "bigEndian") {
		return "be32"
	}
	return "le32"
}

// byteOrder32: be32(a) / le32(a) with the fact that the value determines the first four bytes.
func (x *Exec) byteOrder32(name string, arr *Term) *Term {
	t := App(name, SInt, arr)
	a := BVar("a!"+name, arr.Sort)
	b := BVar("b!"+name, arr.Sort)
	var same []*Term
	for i := int64(0); i < 4; i++ {
		same = append(same, Eq(Select(a, IntLit(i)), Select(b, IntLit(i))))
	}
	x.addFact(t, And(Le(IntLit(0), t), Le(t, IntStr("4294967295")),
		Forall([]*Term{a, b}, Implies(Eq(App(name, SInt, a), App(name, SInt, b)), And(same...)))))
	return t
}

func (x *Exec) tagsOr(tags []string, fr *Frame) []string {
	if len(tags) > 0 {
		return tags
	}
	rt := x.runTags(fr)
	out := make([]string, 0, len(rt)+1)
	out = append(out, rt...)
	return append(out, supportTag)
}

func (c *Ctx) execGhost(g *Clause, vars map[string]Value, old *State) {
	gd := c.pkg.Contracts.GhostIdx[g.Target]
	if gd == nil {
		gd = c.x.contracts().GhostIdx[g.Target]
	}
	if gd == nil {
		panic(engineErr("%s:%d: ghost assignment to undeclared %q", g.File, g.Line, g.Target))
	}
	v := c.specEvalV(g.Expr, c.st, old, vars)
	if v.Kind == KScalar {
		v = Scalar(v.S, c.x.ghostType(gd))
	} else if v.Kind == KSlice {
		v = Value{Kind: KSlice, T: v.T, Arr: v.Arr, Len: v.Len, IsNil: False}
	}
	c.st.store["G:"+gd.Name] = v
}

// havocList forgets the listed locations ("*" = everything).
func (c *Ctx) havocList(locs []string, recvVars map[string]Value) {
	x := c.x
	for _, l := range locs {
		if l == "*" {
			x.havocAll(c.st)
			return
		}
	}
	for _, l := range locs {
		for _, key := range x.expandLoc(l, c.st) {
			if isSpecialKey(key) {
				srt := SInt
				if key[0] == 'H' {
					srt = ArraySort(SRef, SInt)
				}
				if key == decodedKey {
					srt = SRef
				}
				c.st.store[key] = Scalar(Fresh("havoc."+key[3:], srt), nil)
				continue
			}
			if strings.HasPrefix(key, "G:") {
				g := c.pkg.Contracts.GhostIdx[key[2:]]
				c.st.store[key] = c.x.ghostShape(g, "havoc.ghost."+g.Name, true)
				continue
			}
			x.havocKey(c.st, key)
		}
	}
}

// expandLoc turns a modifies pattern into store keys.
func (x *Exec) expandLoc(l string, st *State) []string {
	l = strings.TrimSpace(l)
	if strings.HasPrefix(l, "$") {
		switch l {
		case "$clock":
			return []string{clockKey}
		case "$chan.len":
			return []string{chanLenKey}
		case "$chan.val":
			return []string{chanValKey}
		case "$chan.cap":
			return []string{chanCapKey}
		case "$timer.deadline":
			return []string{deadlineKey}
		case "$decoded":
			return []string{decodedKey}
		case "$sendattempts":
			return []string{sendsKey}
		}
		panic(engineErr("unknown model location %q", l))
	}
	if g, ok := x.contracts().GhostIdx[l]; ok {
		return []string{"G:" + g.Name}
	}
	if strings.HasPrefix(l, "heap ") {
		pat := strings.TrimSpace(l[5:])
		var out []string
		for _, k := range x.allLocations() {
			if strings.HasPrefix(k, "H:") && matchPat(pat, k[2:]) {
				out = append(out, k)
			}
		}
		return out
	}
	var out []string
	for _, k := range x.allLocations() {
		if strings.HasPrefix(k, "S:") && matchPat(l, k[2:]) {
			out = append(out, k)
		}
	}
	if len(out) == 0 {
		panic(engineErr("modifies pattern %q matches no location", l))
	}
	return out
}

func matchPat(pat, s string) bool {
	if strings.HasSuffix(pat, "*") {
		return strings.HasPrefix(s, pat[:len(pat)-1])
	}
	return pat == s
}

// ---- modular call -------------------------------------------------------------

func (x *Exec) bindSpecVars(fi *FuncInfo, recv Value, args []Value) map[string]Value {
	vars := map[string]Value{}
	d := fi.Decl
	if d.Recv != nil && len(d.Recv.List) > 0 && len(d.Recv.List[0].Names) > 0 {
		vars[d.Recv.List[0].Names[0].Name] = recv
	}
	i := 0
	for _, f := range d.Type.Params.List {
		for _, n := range f.Names {
			if i < len(args) {
				vars[n.Name] = args[i]
			}
			i++
		}
		if len(f.Names) == 0 {
			i++
		}
	}
	// the names the contract was written with (positional): a renamed receiver or parameter keeps its clauses
	if sp := fi.Spec; sp != nil && !sp.Extern {
		if sp.RecvName != "" && recv.Kind != KNone {
			vars[sp.RecvName] = recv
		}
		for k, n := range sp.Params {
			if k < len(args) && n != "" && n != "_" {
				vars[n] = args[k]
			}
		}
	}
	return vars
}

func (c *Ctx) modularCall(fi *FuncInfo, recv Value, args []Value, e *ast.CallExpr) Value {
	x := c.x
	sp := fi.Spec
	vars := x.bindSpecVars(fi, recv, args)
	callee := &Ctx{x: x, st: c.st, fr: nil, spec: true, pkg: fi.Pkg}
	_ = callee
	// the callee's clauses do not see the caller's local variables
	sc := *c
	sc.fr = nil
	sc.assuming = true
	for _, r := range sp.Requires {
		g := sc.specEvalIn(fi.Pkg, r.Expr, c.st, nil, vars)
		x.oblige(c.st, "callpre", fi.Key+clauseLabel(r), x.tagsOr(r.Tags, c.fr), g, e.Pos(), r.Text)
	}
	pre := c.st.Clone()
	if !sp.HasMod {
		x.havocAll(c.st)
	} else {
		c.havocListIn(fi.Pkg, sp.Modifies)
	}
	rt := resultType(fi.Obj)
	res := c.arbitrary("ret."+fi.Decl.Name.Name, rt)
	x.bindResults(fi, res, vars)
	if specSaysFreshResult(sp) && rt != nil && res.Kind == KScalar && res.S.Sort == SRef {
		// the result is an object the callee allocated: its fields are not those of any object of the
		// caller's heap (the callee's frame condition is about the objects that existed before the call)
		if _, _, ok := x.isRepoStruct(pointee(rt)); ok {
			prefix := "H:" + typeName(pointee(rt)) + "."
			for _, key := range x.allLocations() {
				if !strings.HasPrefix(key, prefix) {
					continue
				}
				T := x.locTypes[key]
				if T == nil {
					continue
				}
				h := x.load(c.st, key, T)
				nv := zip2(h, liftLike(h, x.freshValue("fresh."+key[2:], T)), func(arr, val *Term) *Term { return Store(arr, res.S, val) })
				nv.T = T
				x.storeTo(c.st, key, nv)
			}
		}
	}
	for _, en := range sp.Ensures {
		c.st.assume(sc.specEvalIn(fi.Pkg, en.Expr, c.st, pre, vars))
	}
	if !c.spec {
		// remember the state right after this call (spec form aftercall(f, e))
		snap := c.st.Clone()
		snap.after = nil
		if c.st.after == nil {
			c.st.after = map[string]*State{}
		}
		c.st.after[fi.Decl.Name.Name] = snap
		bsnap := pre.Clone()
		bsnap.after = nil
		c.st.after["<"+fi.Decl.Name.Name] = bsnap
	}
	return res
}

// specSaysFreshResult: the contract has a clause fresh(result).
func specSaysFreshResult(sp *FuncSpec) bool {
	found := false
	for _, en := range sp.Ensures {
		ast.Inspect(en.Expr, func(n ast.Node) bool {
			if ce, ok := n.(*ast.CallExpr); ok {
				if id, ok := ce.Fun.(*ast.Ident); ok && id.Name == "fresh" && len(ce.Args) == 1 {
					if a, ok := ce.Args[0].(*ast.Ident); ok && a.Name == "result" {
						found = true
					}
				}
			}
			return !found
		})
	}
	return found
}

func (c *Ctx) havocListIn(pkg *PkgInfo, locs []string) {
	save := c.pkg
	c.pkg = pkg
	defer func() { c.pkg = save }()
	c.havocList(locs, nil)
}

func (x *Exec) bindResults(fi *FuncInfo, res Value, vars map[string]Value) {
	if res.Kind == KNone {
		return
	}
	vars["result"] = res
	if fi.Decl.Type.Results != nil {
		i := 0
		for _, f := range fi.Decl.Type.Results.List {
			for _, n := range f.Names {
				if res.Kind == KTuple {
					vars[n.Name] = res.Elems[i]
				} else {
					vars[n.Name] = res
				}
				i++
			}
			if len(f.Names) == 0 {
				i++
			}
		}
	}
	if res.Kind == KTuple {
		for i, el := range res.Elems {
			vars[fmt.Sprintf("result%d", i)] = el
		}
	}
}

// specModular: a contracted function with loops used inside a spec: its result is
// characterised by its ensures clauses only.
func (c *Ctx) specModular(fi *FuncInfo, recv Value, args []Value, e *ast.CallExpr) Value {
	x := c.x
	vars := x.bindSpecVars(fi, recv, args)
	// deterministic result: uninterpreted function of the state would be needed; use a
	// per-state cached fresh value instead
	key := fmt.Sprintf("specret.%s@%p", fi.Key, c.st)
	rt := resultType(fi.Obj)
	res := x.symbolic(key, rt, func(n string, s Sort) *Term { return Var(n, s) })
	x.bindResults(fi, res, vars)
	for _, en := range fi.Spec.Ensures {
		f := c.specEvalIn(fi.Pkg, en.Expr, c.st, c.st, vars)
		for _, t := range res.components() {
			x.addFact(t, f)
		}
	}
	return res
}

func hasLoop(b *ast.BlockStmt) bool {
	found := false
	ast.Inspect(b, func(n ast.Node) bool {
		switch n.(type) {
		case *ast.ForStmt, *ast.RangeStmt:
			found = true
		}
		return !found
	})
	return found
}

// ---- inlining -----------------------------------------------------------------

func (c *Ctx) inlineCall(fi *FuncInfo, recv Value, args []Value, e *ast.CallExpr) Value {
	x := c.x
	if x.depth > 16 {
		panic(engineErr("inlining too deep at %s (recursion must be cut by a contract)", fi.Key))
	}
	for _, fr := range x.frames {
		if fr.fi == fi {
			panic(engineErr("recursive inlining of %s: give it a contract", fi.Key))
		}
	}
	x.inlined[fi.Pkg.Name+"."+fi.Key] = true
	x.depth++
	defer func() { x.depth-- }()
	fr := x.newFrame(fi)
	x.frames = append(x.frames, fr)
	if !c.spec {
		x.prefix = append(x.prefix, "in:"+fi.Key)
	} else {
		x.quiet++
	}
	defer func() {
		x.frames = x.frames[:len(x.frames)-1]
		if !c.spec {
			x.prefix = x.prefix[:len(x.prefix)-1]
		} else {
			x.quiet--
		}
	}()
	st := c.st
	if c.spec {
		st = c.st.Clone()
	}
	x.bindParams(fr, st, recv, args, e)
	out := x.mergeAll(x.runBody(fr, st))
	if out == nil {
		// no path returns (e.g. always panics)
		c.st.assume(False)
		return c.arbitrary("noreturn", resultType(fi.Obj))
	}
	res := x.collectResults(fr, out)
	x.dropLocals(fr, out)
	if !c.spec {
		*c.st = *out
	} else {
		// spec evaluation must not change the state, but path facts gathered are kept as facts
		for _, t := range res.components() {
			if len(out.pc) > len(c.st.pc) {
				x.addFact(t, Implies(And(c.st.pc...), And(out.pc[len(c.st.pc):]...)))
			}
		}
	}
	return res
}

// ---- intrinsics (assumed stdlib contracts, A9) ---------------------------------

func (c *Ctx) intrinsic(o *types.Func, recv Value, args []Value, e *ast.CallExpr) Value {
	x := c.x
	full := o.FullName()
	rt := resultType(o)
	if sp := c.findExtern(full); sp != nil {
		return c.externCall(full, sp, rt, recv, args, e)
	}
	switch full {
	case "slices.Index":
		s, v := args[0], args[1]
		r := Fresh("slices.Index", SInt)
		i := BVar("i!idx", SInt)
		x.addFact(r, And(Le(IntLit(-1), r), Lt(r, s.Len),
			Implies(Ge(r, IntLit(0)), Eq(Select(s.Arr, r), v.S)),
			Forall([]*Term{i}, Implies(And(Le(IntLit(0), i), Lt(i, Ite(Ge(r, IntLit(0)), r, s.Len))), Neq(Select(s.Arr, i), v.S)))))
		return Scalar(r, types.Typ[types.Int])
	case "slices.Delete":
		s, i, j := args[0], args[1].S, args[2].S
		c.oblige("slicedelete", exprText(e), And(Le(IntLit(0), i), Le(i, j), Le(j, s.Len)), e.Pos())
		r := s
		r.Arr = Fresh("slices.Delete", s.Arr.Sort)
		r.Len = Sub(s.Len, Sub(j, i))
		k := BVar("k!del", SInt)
		x.addFact(r.Arr, Forall([]*Term{k}, Eq(Select(r.Arr, k), Ite(Lt(k, i), Select(s.Arr, k), Select(s.Arr, Add(k, Sub(j, i)))))))
		return r
	case "slices.Contains":
		s, v := args[0], args[1]
		r := Fresh("slices.Contains", SBool)
		i := BVar("i!cont", SInt)
		x.addFact(r, Eq(r, Exists([]*Term{i}, And(Le(IntLit(0), i), Lt(i, s.Len), Eq(Select(s.Arr, i), v.S)))))
		return Scalar(r, types.Typ[types.Bool])
	case "time.Since", "time.Now", "time.Until", "time.After", "time.Sleep", "time.Tick", "time.AfterFunc", "time.NewTicker":
		c.wallClock(full, e)
		if c.x.contracts().clockTags() == nil {
			if v, ok := c.clockIntrinsic(full, args, rt); ok {
				return v
			}
		}
		return c.arbitrary("wallclock."+full, rt)
	case "time.NewTimer":
		c.wallClock(full, e)
		return c.newTimer(args[0], e)
	case "(time.Time).Sub":
		// time.Time.Sub saturates at the int64 range
		d := Sub(recv.S, args[0].S)
		lo, hi := IntStr("-9223372036854775808"), IntStr("9223372036854775807")
		return Scalar(Ite(Lt(d, lo), lo, Ite(Gt(d, hi), hi, d)), rt)
	case "(time.Time).Add":
		return Scalar(Add(recv.S, args[0].S), rt)
	case "(time.Time).UnixNano":
		x.warn("time.Time.UnixNano assumed to be representable (year 1678..2262)")
		return Scalar(recv.S, rt)
	case "(time.Time).IsZero":
		return Scalar(Eq(recv.S, timeZero()), rt)
	case "(time.Time).Before":
		return Scalar(Lt(recv.S, args[0].S), rt)
	case "(time.Time).After":
		return Scalar(Gt(recv.S, args[0].S), rt)
	case "(time.Time).Equal":
		return Scalar(Eq(recv.S, args[0].S), rt)
	case "fmt.Errorf", "errors.New":
		r := Fresh("error", SRef)
		x.addFact(r, Neq(r, Nil))
		return Scalar(r, rt)
	case "crypto/rand.Read":
		// contents of the buffer become arbitrary
		if len(e.Args) == 1 {
			b := args[0]
			b.Arr = Fresh("rand.bytes", b.Arr.Sort)
			c.x.assign(c, e.Args[0], b)
		}
		return c.arbitrary("rand.Read", rt)
	case "(encoding/binary.littleEndian).Uint64", "(encoding/binary.bigEndian).Uint64":
		c.oblige("bounds", exprText(e), Ge(args[0].Len, IntLit(8)), e.Pos())
		return c.arbitrary("binary.Uint64", rt)
	case "(encoding/binary.littleEndian).Uint32", "(encoding/binary.bigEndian).Uint32":
		// the 32-bit value of the first four bytes, in the named byte order: an uninterpreted function of the bytes
		// that determines them (different first four bytes give different values)
		c.oblige("bounds", exprText(e), Ge(args[0].Len, IntLit(4)), e.Pos())
		return Scalar(c.x.byteOrder32(byteOrderName(full), args[0].Arr), rt)
	case "(encoding/binary.littleEndian).PutUint32", "(encoding/binary.bigEndian).PutUint32":
		// the first four bytes become those whose value is v; the others stay
		c.oblige("bounds", exprText(e), Ge(args[0].Len, IntLit(4)), e.Pos())
		b := args[0]
		na := Fresh("put32.arr", b.Arr.Sort)
		k := BVar("k!put32", SInt)
		x.addFact(na, And(Eq(c.x.byteOrder32(byteOrderName(full), na), args[1].S),
			Forall([]*Term{k}, Implies(Or(Lt(k, IntLit(0)), Ge(k, IntLit(4))), Eq(Select(na, k), Select(b.Arr, k)))),
			Forall([]*Term{k}, Implies(And(Le(IntLit(0), k), Lt(k, IntLit(4))), And(Le(IntLit(0), Select(na, k)), Le(Select(na, k), IntLit(255)))))))
		b.Arr = na
		if !c.spec {
			c.x.assign(c, e.Args[0], b)
		}
		return Value{Kind: KNone}
	case "(encoding/binary.littleEndian).Uint16", "(encoding/binary.bigEndian).Uint16":
		c.oblige("bounds", exprText(e), Ge(args[0].Len, IntLit(2)), e.Pos())
		return c.arbitrary("binary.Uint16", rt)
	case "(*encoding/gob.Encoder).Encode":
		return c.arbitrary("gob.Encode", rt)
	case "(*bytes.Buffer).Bytes":
		// the bytes are the buffer's own store: the caller owns them exactly when the buffer is a value declared in the
		// body of the function under verification (not a parameter, a field, a global or something a call returned)
		v := c.arbitrary("buffer.bytes", rt)
		if se, ok := e.Fun.(*ast.SelectorExpr); ok && c.isBodyLocalValue(se.X) {
			v.Own = true
		}
		return v
	case "bytes.Clone", "slices.Clone":
		v := c.arbitrary("clone", rt)
		if len(args) == 1 && args[0].Kind == KSlice {
			v.Arr, v.Len, v.IsNil = args[0].Arr, args[0].Len, args[0].IsNil
		}
		v.Own = true
		return v
	case "(*go.uber.org/zap.Logger).Fatal", "os.Exit":
		// the process ends here (A5): the path is not continued
		c.st.assume(False)
		return Value{Kind: KNone}
	case "(*go.uber.org/zap.Logger).Panic", "(*go.uber.org/zap.SugaredLogger).Panic", "(*go.uber.org/zap.SugaredLogger).Panicf",
		"(*go.uber.org/zap.SugaredLogger).Panicw", "(*go.uber.org/zap.SugaredLogger).Panicln":
		// a logger call that panics is a panic of the library: reaching it is an obligation
		if !c.spec {
			c.oblige("panic", "Logger.Panic", False, e.Pos())
		}
		c.st.assume(False)
		return Value{Kind: KNone}
	case "(*go.uber.org/zap.SugaredLogger).Fatal", "(*go.uber.org/zap.SugaredLogger).Fatalf", "(*go.uber.org/zap.SugaredLogger).Fatalw", "(*go.uber.org/zap.SugaredLogger).Fatalln":
		c.st.assume(False)
		return Value{Kind: KNone}
	}
	if o.Pkg() != nil {
		switch o.Pkg().Path() {
		case "go.uber.org/zap", "go.uber.org/zap/zapcore", "fmt", "errors", "strconv", "strings":
			// logging / formatting: arguments were evaluated, result is opaque, no effect
			if rt == nil {
				return Value{Kind: KNone}
			}
			return c.arbitrary("opaque."+o.Name(), rt)
		}
	}
	if v, ok := c.timerIntrinsic(full, recv, args, e, rt); ok {
		return v
	}
	x.warn("unmodelled external function %s: arbitrary result, no effect on the instance", full)
	return c.arbitrary("ext."+o.Name(), rt)
}

// wallClock: reading the machine clock is a frame violation outside packages that may do so.
func (c *Ctx) wallClock(full string, e *ast.CallExpr) {
	if c.spec || c.x.quiet > 0 {
		return
	}
	tags := c.x.contracts().clockTags()
	if tags == nil {
		return
	}
	c.x.oblige(c.st, "wallclock", full, tags, False, e.Pos(), "package must not read the machine clock")
}

func (k *Contracts) clockTags() []string {
	for _, w := range k.Writers {
		if w.Kind == "forbid" && w.Subject == "wallclock" {
			return w.Tags
		}
	}
	return nil
}

// makeObjects: make([]S, n) for a struct type S of the repository.  The elements are n new objects: non-nil, pairwise
// distinct, different from every reference the state holds, all fields zero.
func (c *Ctx) makeObjects(v *Value, et types.Type) {
	x := c.x
	arr := Fresh("make.objs", ArraySort(SInt, SRef))
	i := BVar("i!mk", SInt)
	j := BVar("j!mk", SInt)
	in := func(k *Term) *Term { return And(Le(IntLit(0), k), Lt(k, v.Len)) }
	facts := []*Term{
		Forall([]*Term{i}, Implies(in(i), Neq(Select(arr, i), Nil))),
		Forall([]*Term{i, j}, Implies(And(in(i), in(j), Neq(i, j)), Neq(Select(arr, i), Select(arr, j)))),
	}
	if x.contracts().Options["freshalloc"] {
		facts = append(facts, Forall([]*Term{i}, Implies(in(i), freshTerm(Select(arr, i), c.st.store))))
	}
	owner := typeName(et)
	_, st, _ := x.isRepoStruct(et)
	zero := x.zeroValue(et)
	for k := 0; k < st.NumFields(); k++ {
		f := st.Field(k)
		h := x.load(c.st, "H:"+owner+"."+f.Name(), f.Type())
		zf := zero.Fields[f.Name()]
		hc, zc := h.components(), zf.components()
		if len(hc) != len(zc) {
			panic(engineErr("make([]%s, n): field %s has a shape the allocation model does not cover", owner, f.Name()))
		}
		for q := range hc {
			facts = append(facts, Forall([]*Term{i}, Implies(in(i), Eq(Select(hc[q], Select(arr, i)), zc[q]))))
		}
	}
	x.addFact(arr, And(facts...))
	v.Arr = arr
}

// isNilSliceExpr: nil, []T(nil) or []T{}
func isNilSliceExpr(e ast.Expr) bool {
	switch t := e.(type) {
	case *ast.Ident:
		return t.Name == "nil"
	case *ast.CallExpr:
		if len(t.Args) == 1 {
			if _, ok := t.Fun.(*ast.ArrayType); ok {
				return isNilSliceExpr(t.Args[0])
			}
		}
	case *ast.CompositeLit:
		_, ok := t.Type.(*ast.ArrayType)
		return ok && len(t.Elts) == 0
	case *ast.ParenExpr:
		return isNilSliceExpr(t.X)
	}
	return false
}

// isBodyLocalValue: e names a variable of non-pointer type declared inside the body of the function being executed.
func (c *Ctx) isBodyLocalValue(e ast.Expr) bool {
	id, ok := e.(*ast.Ident)
	if !ok {
		return false
	}
	if c.fr == nil || c.fr.fi == nil {
		return false
	}
	v, ok := c.fr.info.Uses[id].(*types.Var)
	if !ok || v.IsField() {
		return false
	}
	if c.fr.fi.Decl == nil || c.fr.fi.Decl.Body == nil {
		return false
	}
	b := c.fr.fi.Decl.Body
	if !(v.Pos() > b.Pos() && v.Pos() < b.End()) {
		return false
	}
	if _, isPtr := v.Type().Underlying().(*types.Pointer); isPtr {
		// a pointer declared in the body owns its target when it is assigned exactly once, from new(T) or &T{...}
		n, fresh := 0, false
		ast.Inspect(b, func(nd ast.Node) bool {
			switch st := nd.(type) {
			case *ast.AssignStmt:
				for i, l := range st.Lhs {
					lid, ok := l.(*ast.Ident)
					if !ok {
						continue
					}
					o := c.fr.info.Defs[lid]
					if o == nil {
						o = c.fr.info.Uses[lid]
					}
					if o != types.Object(v) {
						continue
					}
					n++
					if len(st.Rhs) == len(st.Lhs) {
						fresh = isFreshAllocExpr(st.Rhs[i])
					}
				}
			case *ast.ValueSpec:
				for i, name := range st.Names {
					if c.fr.info.Defs[name] == types.Object(v) {
						n++
						if i < len(st.Values) {
							fresh = isFreshAllocExpr(st.Values[i])
						}
					}
				}
			case *ast.UnaryExpr:
				// &p taken: somebody else may redirect it
				if st.Op == token.AND {
					if id2, ok := unparen(st.X).(*ast.Ident); ok && c.fr.info.Uses[id2] == types.Object(v) {
						n += 2
					}
				}
			}
			return true
		})
		return n == 1 && fresh
	}
	return true
}

// isFreshAllocExpr: new(T) or &T{...}
func isFreshAllocExpr(e ast.Expr) bool {
	switch t := unparen(e).(type) {
	case *ast.CallExpr:
		id, ok := t.Fun.(*ast.Ident)
		return ok && id.Name == "new" && len(t.Args) == 1
	case *ast.UnaryExpr:
		_, ok := unparen(t.X).(*ast.CompositeLit)
		return t.Op == token.AND && ok
	}
	return false
}

var _ = token.NoPos
