package main

import (
	"flag"
	"fmt"
	"os"
	"sort"
	"strings"
	"time"
)

func main() {
	if len(os.Args) > 1 && os.Args[1] == "solve-worker" {
		workerMain()
		return
	}
	os.Setenv("PATH", "/opt/veriftools/go1.26.8/bin:"+os.Getenv("PATH"))
	StartWorkers(16)
	defer StopWorkers()
	if len(os.Args) > 1 && os.Args[1] == "check" {
		code := cmdCheck(os.Args[2:])
		StopWorkers()
		cleanupScratch()
		os.Exit(code)
	}
	if len(os.Args) > 1 && os.Args[1] == "names" {
		// names [repo]: receiver and parameter names of every function under contract, as the contract files see them now
		repo := "/repo"
		if len(os.Args) > 2 {
			repo = os.Args[2]
		}
		w, err := LoadWorld(repo)
		if err != nil {
			fmt.Fprintln(os.Stderr, "load:", err)
			os.Exit(2)
		}
		for _, pi := range w.Pkgs {
			for k, fi := range pi.Funcs {
				if fi.Spec == nil || fi.Decl == nil {
					continue
				}
				rn := ""
				if fi.Decl.Recv != nil && len(fi.Decl.Recv.List) > 0 && len(fi.Decl.Recv.List[0].Names) > 0 {
					rn = fi.Decl.Recv.List[0].Names[0].Name
				}
				var ps []string
				for _, f := range fi.Decl.Type.Params.List {
					if len(f.Names) == 0 {
						ps = append(ps, "_")
					}
					for _, n := range f.Names {
						ps = append(ps, n.Name)
					}
				}
				fmt.Printf("NAMES\t%s\t%s\t%s\t%s\n", fi.Spec.File, k, rn, strings.Join(ps, ","))
			}
		}
		os.Exit(0)
	}
	repo := flag.String("repo", "/repo", "repository root")
	fn := flag.String("func", "", "only this function key (debug)")
	pkgName := flag.String("pkg", "dbft", "package name")
	dump := flag.Bool("dump", false, "dump failing queries")
	timeout := flag.Int("timeout", 10000, "per-obligation timeout (ms)")
	flag.Parse()
	defer cleanupScratch()
	t0 := time.Now()
	w, err := LoadWorld(*repo)
	if err != nil {
		fmt.Fprintln(os.Stderr, "load:", err)
		os.Exit(2)
	}
	fmt.Printf("loaded in %v\n", time.Since(t0))
	pi := w.PkgByName(*pkgName)
	var all []*Obligation
	counts := map[*Obligation][]*countDef{}
	var keys []string
	for k, fi := range pi.Funcs {
		if fi.Spec == nil || fi.Spec.Inline {
			continue
		}
		if *fn != "" && k != *fn {
			continue
		}
		keys = append(keys, k)
	}
	sort.Strings(keys)
	for _, k := range keys {
		r := VerifyFunc(w, pi.Funcs[k])
		if r.Err != nil {
			fmt.Println("ENGINE ERROR:", r.Err)
			continue
		}
		for _, wm := range r.Warnings {
			fmt.Println("  warn:", k, wm)
		}
		for _, o := range r.Obls {
			counts[o] = r.Axioms
		}
		all = append(all, r.Obls...)
	}
	if *fn == "" {
		lo, err := VerifyLemmas(w, pi)
		if err != nil {
			fmt.Println("ENGINE ERROR:", err)
		}
		all = append(all, lo...)
	}
	fmt.Printf("%d obligations generated in %v\n", len(all), time.Since(t0))
	Discharge(all, counts, RunConfig{TimeoutMs: *timeout, Workers: 16})
	bad := 0
	vacAlive := map[string]bool{}
	for _, o := range all {
		if o.Kind == "vacuity" && o.Verdict != VUnsat {
			vacAlive[o.Name] = true
		}
	}
	for _, o := range all {
		status := o.Verdict.String()
		if o.Kind == "vacuity" {
			if !vacAlive[o.Name] {
				vacAlive[o.Name] = true
				fmt.Println("VACUOUS (contradictory precondition / unreachable loop body or exit):", o.Name)
			}
			continue
		}
		if o.Verdict != VUnsat {
			bad++
		}
		fmt.Printf("%-7s %-8s %5dms [%s] %s  (%s)\n", status, o.Solver, o.Ms, strings.Join(o.Tags, ","), o.Name, o.Pos)
		if o.Verdict != VUnsat && *dump {
			fmt.Println("   clause:", o.Clause)
			fmt.Println("   model:", strings.ReplaceAll(o.Model, "\n", " "))
			if o.Goal.Op == "and" {
				var subs []*Obligation
				for _, g := range o.Goal.Args {
					so := *o
					so.Goal = g
					so.Name = g.String()
					subs = append(subs, &so)
					counts[&so] = counts[o]
				}
				Discharge(subs, counts, RunConfig{TimeoutMs: *timeout, Workers: 16})
				for _, so := range subs {
					if so.Verdict != VUnsat {
						n := so.Name
						if len(n) > 300 {
							n = n[:300]
						}
						fmt.Println("   failing conjunct:", so.Verdict, n)
						fmt.Println("      model:", strings.ReplaceAll(so.Model, "\n", " "))
					}
				}
			}
			hyps := o.BuildQuery(counts[o])
			os.WriteFile("/tmp/govc_fail_"+fmt.Sprint(bad)+".smt2", []byte(Script(hyps, o.Goal, nil)), 0o644)
		}
	}
	if d := os.Getenv("GOVC_DUMPALL"); d != "" {
		os.MkdirAll(d, 0o755)
		for i, o := range all {
			os.WriteFile(fmt.Sprintf("%s/%03d_%s.smt2", d, i, strings.NewReplacer("/", "_", " ", "_", "*", "", "(", "", ")", "").Replace(o.Name)), []byte(Script(o.BuildQuery(counts[o]), o.Goal, nil)), 0o644)
		}
	}
	fmt.Printf("total %d, not proved %d, %v\n", len(all), bad, time.Since(t0))
}

func init() {
	if os.Getenv("GOVC_KEEP") != "" {
		keepScripts = true
	}
}
