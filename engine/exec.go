package main

// Statement execution (forward symbolic execution with merging at joins).

import (
	"fmt"
	"go/ast"
	"go/token"
	"go/types"
	"strings"
)

type loopCtx struct {
	breaks    []*State
	continues []*State
	isSwitch  bool
}

type Frame struct {
	fi         *FuncInfo
	info       *types.Info
	act        int
	keys       map[*types.Var]string
	addrTaken  map[*types.Var]bool
	aliasVars  map[*types.Var]string // locals initialised from a slice/map held elsewhere (writes through them are refused)
	beforeLoop map[*LoopSpec]*State  // state just before each loop (for before(e) in its invariants)
	scope      map[string]string     // name -> store key (most recent declaration), for spec expressions
	returns    []*State
	defers     []*ast.CallExpr
	loops      []*loopCtx
	loopOrd    int
	loopIdx    map[token.Pos]int
	nres       int
	resVars    []*types.Var
}

func (x *Exec) newFrame(fi *FuncInfo) *Frame {
	x.actSeq++
	fr := &Frame{fi: fi, info: fi.Pkg.P.TypesInfo, act: x.actSeq, keys: map[*types.Var]string{}, scope: map[string]string{}}
	if fi.Obj != nil {
		fr.nres = fi.Obj.Type().(*types.Signature).Results().Len()
	}
	return fr
}

func (fr *Frame) keyOf(v *types.Var) (string, bool) {
	if fr == nil {
		return "", false
	}
	k, ok := fr.keys[v]
	return k, ok
}

func (fr *Frame) declare(v *types.Var) string {
	k := fmt.Sprintf("L:%d:%s@%d", fr.act, v.Name(), v.Pos())
	fr.keys[v] = k
	fr.scope[v.Name()] = k
	return k
}

func (fr *Frame) retKey(i int) string { return fmt.Sprintf("L:%d:$ret%d", fr.act, i) }

func (x *Exec) ctx(fr *Frame, st *State) *Ctx {
	return &Ctx{x: x, st: st, fr: fr, info: fr.info, pkg: fr.fi.Pkg}
}

// bindParams stores receiver and arguments in the callee frame.
func (x *Exec) bindParams(fr *Frame, st *State, recv Value, args []Value, call *ast.CallExpr) {
	d := fr.fi.Decl
	sig := fr.fi.Obj.Type().(*types.Signature)
	if d.Recv != nil && len(d.Recv.List) > 0 && len(d.Recv.List[0].Names) > 0 {
		id := d.Recv.List[0].Names[0]
		if v, ok := fr.info.Defs[id].(*types.Var); ok && id.Name != "_" {
			st.store[fr.declare(v)] = recv
		}
	}
	i := 0
	np := sig.Params().Len()
	for _, f := range d.Type.Params.List {
		names := f.Names
		if len(names) == 0 {
			i++
			continue
		}
		for _, n := range names {
			v, _ := fr.info.Defs[n].(*types.Var)
			var val Value
			if sig.Variadic() && i == np-1 {
				if call != nil && call.Ellipsis.IsValid() && i < len(args) {
					val = args[i]
				} else {
					// pack remaining arguments
					T := sig.Params().At(i).Type()
					val = x.zeroValue(T)
					val.IsNil = BoolLit(len(args) <= i)
					for _, a := range args[min(i, len(args)):] {
						val.Arr = Store(val.Arr, val.Len, a.S)
						val.Len = Add(val.Len, IntLit(1))
					}
				}
			} else if i < len(args) {
				val = (&Ctx{x: x, st: st}).coerce(args[i], sig.Params().At(i).Type())
			}
			if v != nil && n.Name != "_" {
				st.store[fr.declare(v)] = val
			}
			i++
		}
	}
	// named results start at their zero values
	if d.Type.Results != nil {
		for _, f := range d.Type.Results.List {
			for _, n := range f.Names {
				if v, ok := fr.info.Defs[n].(*types.Var); ok {
					st.store[fr.declare(v)] = x.zeroValue(v.Type())
					fr.resVars = append(fr.resVars, v)
				}
			}
		}
	}
}

// runBody executes the function body; the returning paths are left in fr.returns
// (joined by epoch).  mergeReturns folds them into one state (used for inlining).
func (x *Exec) runBody(fr *Frame, st *State) []*State {
	outs := x.block(fr, fr.fi.Decl.Body.List, []*State{st})
	for _, o := range outs {
		x.doReturn(fr, o, nil, fr.fi.Decl.Body.Rbrace)
	}
	fr.returns = x.join(fr.returns)
	return fr.returns
}

func one(st *State) []*State {
	if st == nil || isFalse(st) {
		return nil
	}
	return []*State{st}
}

const maxPaths = 48

// join merges states that live in the same epoch (cheap: a few ite terms) and keeps
// states of different epochs apart (merging those would put every location under an
// ite and defeat the quantified invariants assumed for each epoch).
func (x *Exec) join(sts []*State) []*State {
	var live []*State
	for _, s := range sts {
		if s != nil && !isFalse(s) {
			live = append(live, s)
		}
	}
	if len(live) <= 1 {
		return live
	}
	var order []*Epoch
	groups := map[*Epoch][]*State{}
	for _, s := range live {
		if _, ok := groups[s.epoch]; !ok {
			order = append(order, s.epoch)
		}
		groups[s.epoch] = append(groups[s.epoch], s)
	}
	var out []*State
	for _, e := range order {
		out = append(out, x.mergeAll(groups[e]))
	}
	if len(out) > maxPaths {
		x.warn("more than %d paths: merged across epochs", maxPaths)
		return []*State{x.mergeAll(out)}
	}
	return out
}

func (x *Exec) collectResults(fr *Frame, out *State) Value {
	sig := fr.fi.Obj.Type().(*types.Signature)
	switch fr.nres {
	case 0:
		return Value{Kind: KNone}
	case 1:
		return out.store[fr.retKey(0)]
	}
	v := Value{Kind: KTuple, T: sig.Results()}
	for i := 0; i < fr.nres; i++ {
		v.Elems = append(v.Elems, out.store[fr.retKey(i)])
	}
	return v
}

func (x *Exec) dropLocals(fr *Frame, st *State) {
	p := fmt.Sprintf("L:%d:", fr.act)
	for k := range st.store {
		if strings.HasPrefix(k, p) {
			delete(st.store, k)
		}
	}
}

func (x *Exec) doReturn(fr *Frame, st *State, results []ast.Expr, p token.Pos) {
	c := x.ctx(fr, st)
	sig := fr.fi.Obj.Type().(*types.Signature)
	var vals []Value
	if len(results) == 0 && len(fr.resVars) > 0 {
		for _, v := range fr.resVars {
			vals = append(vals, x.load(st, fr.keys[v], v.Type()))
		}
	} else if len(results) == 1 && fr.nres > 1 {
		t := c.eval(results[0])
		vals = t.Elems
	} else {
		for i, r := range results {
			vals = append(vals, c.coerce(c.eval(r), sig.Results().At(i).Type()))
		}
	}
	for i, v := range vals {
		if v.T == nil {
			v.T = sig.Results().At(i).Type()
		}
		st.store[fr.retKey(i)] = v
		if len(fr.resVars) == len(vals) {
			st.store[fr.keys[fr.resVars[i]]] = v
		}
	}
	// deferred calls, last in first out
	sts := []*State{st}
	for i := len(fr.defers) - 1; i >= 0; i-- {
		d := fr.defers[i]
		if fl, ok := unparen(d.Fun).(*ast.FuncLit); ok {
			saved := fr.returns
			fr.returns = nil
			sts = x.block(fr, fl.Body.List, sts)
			sts = append(sts, fr.returns...)
			fr.returns = saved
		} else {
			for _, s2 := range sts {
				x.ctx(fr, s2).evalCall(d)
			}
		}
		if len(fr.resVars) == len(vals) {
			for _, s2 := range sts {
				for i, rv := range fr.resVars {
					s2.store[fr.retKey(i)] = s2.store[fr.keys[rv]]
				}
			}
		}
	}
	fr.returns = append(fr.returns, sts...)
}

func (x *Exec) block(fr *Frame, stmts []ast.Stmt, sts []*State) []*State {
	for _, s := range stmts {
		if len(sts) == 0 {
			return nil
		}
		var next []*State
		for _, st := range sts {
			next = append(next, x.stmt(fr, s, st)...)
		}
		sts = x.join(next)
	}
	return sts
}

func isFalse(st *State) bool {
	for _, p := range st.pc {
		if p == False {
			return true
		}
	}
	return false
}

func (x *Exec) stmt(fr *Frame, s ast.Stmt, st *State) []*State {
	if isFalse(st) {
		return nil
	}
	c := x.ctx(fr, st)
	switch s := s.(type) {
	case *ast.ExprStmt:
		c.eval(s.X)
		return one(st)
	case *ast.EmptyStmt:
		return one(st)
	case *ast.BlockStmt:
		return x.block(fr, s.List, []*State{st})
	case *ast.LabeledStmt:
		return x.stmt(fr, s.Stmt, st)
	case *ast.DeclStmt:
		gd := s.Decl.(*ast.GenDecl)
		if gd.Tok != token.VAR {
			return one(st)
		}
		for _, sp := range gd.Specs {
			vs := sp.(*ast.ValueSpec)
			if len(vs.Values) == 1 && len(vs.Names) > 1 {
				t := c.eval(vs.Values[0])
				for i, n := range vs.Names {
					x.defineVar(fr, st, n, t.Elems[i])
				}
				continue
			}
			for i, n := range vs.Names {
				v, _ := fr.info.Defs[n].(*types.Var)
				if v == nil {
					continue
				}
				var val Value
				if i < len(vs.Values) {
					val = c.coerce(c.eval(vs.Values[i]), v.Type())
				} else {
					val = x.zeroValue(v.Type())
				}
				x.defineVar(fr, st, n, val)
			}
		}
		return one(st)
	case *ast.AssignStmt:
		x.assignStmt(fr, c, s)
		return one(st)
	case *ast.IncDecStmt:
		cur := c.eval(s.X)
		T := c.typeOf(s.X)
		var r *Term
		if s.Tok == token.INC {
			r = Add(cur.S, IntLit(1))
		} else {
			r = Sub(cur.S, IntLit(1))
		}
		if !c.wrapsText(exprText(s.X) + s.Tok.String()) {
			c.oblige("overflow", exprText(s.X)+s.Tok.String(), inRange(r, T), s.Pos())
		}
		if _, _, ok := intRange(T); ok {
			r = Ite(inRange(r, T), r, wrapTo(r, T))
		}
		x.assign(c, s.X, Scalar(r, T))
		return one(st)
	case *ast.ReturnStmt:
		x.doReturn(fr, st, s.Results, s.Pos())
		return nil
	case *ast.IfStmt:
		sts := []*State{st}
		if s.Init != nil {
			sts = x.stmt(fr, s.Init, st)
		}
		var outs []*State
		for _, st0 := range sts {
			for _, b := range x.evalCond(fr, s.Cond, st0) {
				stT := b.st.Clone()
				stT.assume(b.v)
				if !isFalse(stT) {
					outs = append(outs, x.block(fr, s.Body.List, []*State{stT})...)
				}
				stF := b.st.Clone()
				stF.assume(Not(b.v))
				if isFalse(stF) {
					continue
				}
				if s.Else != nil {
					outs = append(outs, x.stmt(fr, s.Else, stF)...)
				} else {
					outs = append(outs, stF)
				}
			}
		}
		return x.join(outs)
	case *ast.SwitchStmt:
		return x.switchStmt(fr, s, st)
	case *ast.ForStmt:
		return x.forStmt(fr, s, st)
	case *ast.RangeStmt:
		return x.rangeStmt(fr, s, st)
	case *ast.BranchStmt:
		if s.Label != nil {
			panic(engineErr("%s: labelled %s not supported", x.pos(s.Pos()), s.Tok))
		}
		if len(fr.loops) == 0 {
			panic(engineErr("%s: %s outside loop/switch", x.pos(s.Pos()), s.Tok))
		}
		l := fr.loops[len(fr.loops)-1]
		switch s.Tok {
		case token.BREAK:
			l.breaks = append(l.breaks, st)
		case token.CONTINUE:
			k := len(fr.loops) - 1
			for k >= 0 && fr.loops[k].isSwitch {
				k--
			}
			if k < 0 {
				panic(engineErr("%s: continue outside loop", x.pos(s.Pos())))
			}
			fr.loops[k].continues = append(fr.loops[k].continues, st)
		default:
			panic(engineErr("%s: %s not supported", x.pos(s.Pos()), s.Tok))
		}
		return nil
	case *ast.DeferStmt:
		if len(fr.loops) > 0 {
			panic(engineErr("%s: defer inside a loop not supported", x.pos(s.Pos())))
		}
		fr.defers = append(fr.defers, s.Call)
		return one(st)
	case *ast.SelectStmt:
		return x.selectStmt(fr, s, st)
	case *ast.SendStmt:
		return x.sendStmt(fr, s, st)
	case *ast.GoStmt:
		panic(engineErr("%s: go statement not supported (A1: single-threaded use)", x.pos(s.Pos())))
	}
	panic(engineErr("%s: statement %T not supported", x.pos(s.Pos()), s))
}

type condBranch struct {
	st *State
	v  *Term
}

// evalCond evaluates a condition.  Conditions whose operands may change the state
// through contract calls are split into paths at && / || so that each path keeps
// its own epoch; pure conditions are evaluated as one term.
func (x *Exec) evalCond(fr *Frame, e ast.Expr, st *State) []condBranch {
	e = unparen(e)
	switch b := e.(type) {
	case *ast.UnaryExpr:
		if b.Op == token.NOT && x.mayHavoc(fr, b.X) {
			bs := x.evalCond(fr, b.X, st)
			for i := range bs {
				bs[i].v = Not(bs[i].v)
			}
			return bs
		}
	case *ast.BinaryExpr:
		if (b.Op == token.LAND || b.Op == token.LOR) && x.mayHavoc(fr, e) {
			var out []condBranch
			for _, l := range x.evalCond(fr, b.X, st) {
				g := l.v
				if b.Op == token.LOR {
					g = Not(l.v)
				}
				// right operand evaluated only under g
				sR := l.st.Clone()
				sR.assume(g)
				if !isFalse(sR) {
					out = append(out, x.evalCond(fr, b.Y, sR)...)
				}
				sS := l.st.Clone()
				sS.assume(Not(g))
				if !isFalse(sS) {
					out = append(out, condBranch{sS, BoolLit(b.Op == token.LOR)})
				}
			}
			return out
		}
	}
	v := x.ctx(fr, st).eval(e)
	if isFalse(st) {
		return nil
	}
	return []condBranch{{st, v.S}}
}

// mayHavoc: does evaluating e possibly call a contract function that modifies state?
func (x *Exec) mayHavoc(fr *Frame, e ast.Expr) bool {
	ws := &writeSet{x: x, fr: fr, keys: map[string]bool{}}
	ws.walk(e, fr.info, fr.fi.Pkg, 0)
	if ws.all {
		return true
	}
	for k := range ws.keys {
		if !strings.HasPrefix(k, "L:") {
			return true
		}
	}
	return false
}

func (x *Exec) defineVar(fr *Frame, st *State, n *ast.Ident, val Value) {
	if n.Name == "_" {
		return
	}
	v, _ := fr.info.Defs[n].(*types.Var)
	if v == nil {
		// redeclaration in := uses existing variable
		if u, ok := fr.info.Uses[n].(*types.Var); ok {
			if k, ok := fr.keys[u]; ok {
				st.store[k] = val
				return
			}
		}
		panic(engineErr("cannot define %s", n.Name))
	}
	if val.T == nil || val.Kind == KScalar {
		val.T = v.Type()
	}
	st.store[fr.declare(v)] = val
	x.locTypes[fr.keys[v]] = v.Type()
}

func (x *Exec) assignStmt(fr *Frame, c *Ctx, s *ast.AssignStmt) {
	st := c.st
	switch s.Tok {
	case token.DEFINE, token.ASSIGN:
		var vals []Value
		if len(s.Rhs) == 1 && len(s.Lhs) > 1 {
			// tuple: call, map lookup with ok, type assertion, channel receive
			if ie, ok := unparen(s.Rhs[0]).(*ast.IndexExpr); ok {
				m := c.eval(ie.X)
				k := c.eval(ie.Index)
				if m.Kind != KMap {
					panic(engineErr("%s: comma-ok on non-map", x.pos(s.Pos())))
				}
				has := Select(m.Has, k.S)
				es := sortOfArrElem(m.Arr)
				v := Scalar(Ite(has, Select(m.Arr, k.S), zeroOfSort(es)), elemType(m.T))
				x.valueFacts(v)
				vals = []Value{v, Scalar(has, types.Typ[types.Bool])}
			} else {
				t := c.eval(s.Rhs[0])
				if t.Kind != KTuple {
					panic(engineErr("%s: multi-value right-hand side is not a tuple", x.pos(s.Pos())))
				}
				vals = t.Elems
			}
		} else {
			for _, r := range s.Rhs {
				vals = append(vals, c.eval(r))
			}
		}
		for i, l := range s.Lhs {
			// a local that starts as a copy of a slice / map held elsewhere (x := d.Field): the model gives slices and
			// maps value semantics, so a later write through x would not reach the original - refuse instead of being wrong
			if id, ok := l.(*ast.Ident); ok && i < len(s.Rhs) && len(s.Lhs) == len(s.Rhs) {
				switch unparen(s.Rhs[i]).(type) {
				case *ast.SelectorExpr, *ast.IndexExpr:
					if k := vals[i].Kind; k == KSlice || k == KMap {
						if obj, _ := fr.info.ObjectOf(id).(*types.Var); obj != nil {
							if fr.aliasVars == nil {
								fr.aliasVars = map[*types.Var]string{}
							}
							fr.aliasVars[obj] = exprText(s.Rhs[i])
						}
					}
				}
			}
			if id, ok := l.(*ast.Ident); ok && s.Tok == token.DEFINE {
				if id.Name == "_" {
					continue
				}
				if _, isDef := fr.info.Defs[id].(*types.Var); isDef {
					x.defineVar(fr, st, id, c.coerce(vals[i], fr.info.Defs[id].Type()))
					continue
				}
			}
			x.assign(c, l, vals[i])
		}
	default:
		// op=
		var op token.Token
		switch s.Tok {
		case token.ADD_ASSIGN:
			op = token.ADD
		case token.SUB_ASSIGN:
			op = token.SUB
		case token.MUL_ASSIGN:
			op = token.MUL
		case token.QUO_ASSIGN:
			op = token.QUO
		case token.REM_ASSIGN:
			op = token.REM
		case token.SHL_ASSIGN:
			op = token.SHL
		case token.SHR_ASSIGN:
			op = token.SHR
		default:
			panic(engineErr("%s: assignment operator %s not supported", x.pos(s.Pos()), s.Tok))
		}
		l := c.eval(s.Lhs[0])
		r := c.eval(s.Rhs[0])
		T := c.typeOf(s.Lhs[0])
		be := &ast.BinaryExpr{X: s.Lhs[0], Op: op, Y: s.Rhs[0], OpPos: s.TokPos}
		res := c.arith(op, l.S, r.S, T, be)
		x.assign(c, s.Lhs[0], Scalar(res, T))
	}
}

// setField writes v into the field reached from cont (of type contT) by the index path idx.  When cont
// is a struct VALUE the updated value is returned (true) and the caller stores it back where it
// came from; otherwise the static or heap location is written here.
func (x *Exec) setField(c *Ctx, cont Value, contT types.Type, idx []int, v Value, l *ast.SelectorExpr) (Value, bool) {
	st := c.st
	contT = types.Unalias(contT)
	if p, ok := contT.Underlying().(*types.Pointer); ok {
		contT = p.Elem()
	}
	s, ok := types.Unalias(contT).Underlying().(*types.Struct)
	if !ok {
		panic(engineErr("%s: assignment through non-struct %s", x.pos(l.Pos()), contT))
	}
	f := s.Field(idx[0])
	if len(idx) > 1 {
		inner, _ := c.walkPath(cont, contT, idx[:1])
		if inner.Kind == KStruct {
			// embedded by value: update the copy, then write the whole field back
			ni, _ := x.setField(c, inner, f.Type(), idx[1:], v, l)
			return x.setField(c, cont, contT, idx[:1], ni, l)
		}
		return x.setField(c, inner, f.Type(), idx[1:], v, l)
	}
	v = c.coerce(v, f.Type())
	switch cont.Kind {
	case KPtr:
		path := cont.Path + f.Name()
		if v.Kind == KStruct {
			x.assignStaticStruct(c, path+".", v)
			return cont, false
		}
		if v.Kind == KPtr {
			return cont, false // aliasing field (Context.Config): fixed by the alias declaration
		}
		x.noteWrite(c, "S:"+path, l.Pos())
		x.storeTo(st, "S:"+path, v)
	case KScalar:
		if strings.HasPrefix(cont.Path, "H:") {
			h := x.load(st, cont.Path, contT)
			nh := h
			nh.Fields = map[string]Value{}
			for n, fv := range h.Fields {
				nh.Fields[n] = fv
			}
			hf := h.Fields[f.Name()]
			nf := zip2(hf, liftLike(hf, v), func(arr, val *Term) *Term { return Store(arr, cont.S, val) })
			nf.T = hf.T
			nh.Fields[f.Name()] = nf
			c.oblige("nil", exprText(l.X), Neq(cont.S, Nil), l.Pos())
			x.storeTo(st, cont.Path, nh)
			return cont, false
		}
		if _, isId := unparen(l.X).(*ast.Ident); isId && cont.T != nil {
			if _, isPtr := types.Unalias(cont.T).Underlying().(*types.Pointer); !isPtr && !types.IsInterface(cont.T) {
				panic(engineErr("%s: assignment to a field of %s, a copy of a boxed struct value", x.pos(l.Pos()), exprText(l.X)))
			}
		}
		key := "H:" + typeName(contT) + "." + f.Name()
		h := x.load(st, key, f.Type())
		nv := zip2(h, liftLike(h, v), func(arr, val *Term) *Term { return Store(arr, cont.S, val) })
		nv.T = f.Type()
		c.oblige("nil", exprText(l.X), Neq(cont.S, Nil), l.Pos())
		x.storeTo(st, key, nv)
	case KStruct:
		nc := cont
		nc.Fields = map[string]Value{}
		for n, fv := range cont.Fields {
			nc.Fields[n] = fv
		}
		nc.Fields[f.Name()] = v
		return nc, true
	default:
		panic(engineErr("%s: assignment through %s not supported", x.pos(l.Pos()), exprText(l.X)))
	}
	return cont, false
}

// assign stores v into the location denoted by lhs.
func (x *Exec) assign(c *Ctx, lhs ast.Expr, v Value) {
	st := c.st
	lhs = unparen(lhs)
	switch l := lhs.(type) {
	case *ast.Ident:
		if l.Name == "_" {
			return
		}
		obj, _ := c.info.ObjectOf(l).(*types.Var)
		if obj == nil {
			panic(engineErr("%s: assignment to %s", x.pos(l.Pos()), l.Name))
		}
		key, ok := c.fr.keyOf(obj)
		if !ok {
			panic(engineErr("%s: assignment to variable %s outside the frame", x.pos(l.Pos()), l.Name))
		}
		if c.fr.addrTaken[obj] {
			panic(engineErr("%s: assignment to %s after its address was taken", x.pos(l.Pos()), l.Name))
		}
		st.store[key] = c.coerce(v, obj.Type())
	case *ast.SelectorExpr:
		sel, ok := c.info.Selections[l]
		if !ok || sel.Kind() != types.FieldVal {
			panic(engineErr("%s: assignment to %s not supported", x.pos(l.Pos()), exprText(l)))
		}
		base := c.eval(l.X)
		if nb, isValue := x.setField(c, base, sel.Recv(), sel.Index(), v, l); isValue {
			x.assign(c, l.X, nb)
		}
	case *ast.IndexExpr:
		if id, ok := unparen(l.X).(*ast.Ident); ok && c.fr != nil {
			if obj, _ := c.info.ObjectOf(id).(*types.Var); obj != nil {
				if src, isAlias := c.fr.aliasVars[obj]; isAlias {
					panic(engineErr("%s: write through %s, a local copy of the slice/map %s (aliasing of slices and maps is outside the model)", x.pos(l.Pos()), id.Name, src))
				}
			}
		}
		cur := c.eval(l.X)
		idx := c.eval(l.Index)
		switch cur.Kind {
		case KSlice:
			c.oblige("bounds", exprText(l), And(Le(IntLit(0), idx.S), Lt(idx.S, cur.Len)), l.Pos())
			v = c.boxElem(c.coerce(v, elemTypeOrNil(cur.T)), elemTypeOrNil(cur.T))
			cur.Arr = Store(cur.Arr, idx.S, v.S)
		case KMap:
			c.oblige("nilmap", exprText(l.X), Not(cur.IsNil), l.Pos())
			v = c.coerce(v, elemTypeOrNil(cur.T))
			had := Select(cur.Has, idx.S)
			cur.Size = Add(cur.Size, Ite(had, IntLit(0), IntLit(1)))
			cur.Arr = Store(cur.Arr, idx.S, v.S)
			cur.Has = Store(cur.Has, idx.S, True)
		default:
			panic(engineErr("%s: indexed assignment to %s not supported", x.pos(l.Pos()), exprText(l.X)))
		}
		x.assign(c, l.X, cur)
	case *ast.SliceExpr:
		// a[:] = ... (through copy): the full slice of an array or slice shares its elements
		if l.Low != nil || l.High != nil || l.Max != nil {
			panic(engineErr("%s: assignment through a partial slice expression not supported", x.pos(l.Pos())))
		}
		v.T = c.typeOf(l.X)
		x.assign(c, l.X, v)
	case *ast.StarExpr:
		if pt, ok := types.Unalias(c.typeOf(l.X)).Underlying().(*types.Pointer); ok && x.isBoxed(pt.Elem()) {
			p := c.eval(l.X)
			c.oblige("nil", exprText(l.X), Neq(p.S, Nil), l.Pos())
			c.storePointee(p.S, pt.Elem(), v)
			return
		}
		panic(engineErr("%s: assignment through pointer not supported", x.pos(l.Pos())))
	default:
		panic(engineErr("%s: assignment target %T not supported", x.pos(lhs.Pos()), lhs))
	}
}

func (x *Exec) assignStaticStruct(c *Ctx, prefix string, v Value) {
	for n, f := range v.Fields {
		switch f.Kind {
		case KStruct:
			x.assignStaticStruct(c, prefix+n+".", f)
		case KPtr:
		default:
			x.storeTo(c.st, "S:"+prefix+n, f)
		}
	}
}

// noteWrite is a hook for the writers table (filled by the syntactic pass instead).
func (x *Exec) noteWrite(c *Ctx, key string, p token.Pos) {}

func (x *Exec) switchStmt(fr *Frame, s *ast.SwitchStmt, st *State) []*State {
	if s.Init != nil {
		sts := x.stmt(fr, s.Init, st)
		if len(sts) != 1 {
			panic(engineErr("%s: switch init splits paths", x.pos(s.Pos())))
		}
		st = sts[0]
	}
	c := x.ctx(fr, st)
	var tag *Value
	if s.Tag != nil {
		v := c.eval(s.Tag)
		tag = &v
	}
	var outs []*State
	rest := st
	var deflt *ast.CaseClause
	lc := &loopCtx{isSwitch: true}
	fr.loops = append(fr.loops, lc)
	defer func() { fr.loops = fr.loops[:len(fr.loops)-1] }()
	for _, cl := range s.Body.List {
		cc := cl.(*ast.CaseClause)
		if cc.List == nil {
			deflt = cc
			continue
		}
		if rest == nil {
			break
		}
		rc := x.ctx(fr, rest)
		var conds []*Term
		for _, e := range cc.List {
			v := rc.eval(e)
			if tag != nil {
				conds = append(conds, Eq(tag.S, v.S))
			} else {
				conds = append(conds, v.S)
			}
		}
		cond := Or(conds...)
		stT := rest.Clone()
		stT.assume(cond)
		outs = append(outs, x.caseBody(fr, cc.Body, stT)...)
		stF := rest.Clone()
		stF.assume(Not(cond))
		rest = stF
		if isFalse(rest) {
			rest = nil
		}
	}
	if rest != nil {
		if deflt != nil {
			outs = append(outs, x.caseBody(fr, deflt.Body, rest)...)
		} else {
			outs = append(outs, rest)
		}
	}
	outs = append(outs, lc.breaks...)
	return x.join(outs)
}

func (x *Exec) caseBody(fr *Frame, body []ast.Stmt, st *State) []*State {
	if isFalse(st) {
		return nil
	}
	for _, s := range body {
		if b, ok := s.(*ast.BranchStmt); ok && b.Tok == token.FALLTHROUGH {
			panic(engineErr("%s: fallthrough not supported", x.pos(b.Pos())))
		}
	}
	return x.block(fr, body, []*State{st})
}

// ---- loops ---------------------------------------------------------------------

// loopSpec finds the invariants of a loop; loops are numbered in source order.
func (x *Exec) loopSpec(fr *Frame, p token.Pos) (*LoopSpec, int) {
	if fr.loopIdx == nil {
		fr.loopIdx = map[token.Pos]int{}
		n := 0
		ast.Inspect(fr.fi.Decl.Body, func(nd ast.Node) bool {
			switch nd.(type) {
			case *ast.ForStmt, *ast.RangeStmt:
				n++
				fr.loopIdx[nd.Pos()] = n
			}
			return true
		})
	}
	ord := fr.loopIdx[p]
	var ls *LoopSpec
	if fr.fi.Spec != nil {
		ls = fr.fi.Spec.Loops[ord]
	}
	if ls == nil {
		ls = &LoopSpec{}
	}
	return ls, ord
}

func (x *Exec) checkInvariants(fr *Frame, st *State, ls *LoopSpec, ord int, kind string, p token.Pos) {
	if kind == "loop-entry" {
		// before(e) in this loop's invariants: e in the state just before the loop
		if fr.beforeLoop == nil {
			fr.beforeLoop = map[*LoopSpec]*State{}
		}
		fr.beforeLoop[ls] = st.Clone()
	}
	c := x.ctx(fr, st)
	c.loopSpec = ls
	if kind == "loop-step" && len(ls.Invariants) > 0 && len(x.prefix) == 0 {
		// cover canary: the end of the loop body must be reachable, or the step obligations say nothing
		x.oblige(st, "vacuity", fmt.Sprintf("loop%d.body", ord), nil, False, p, "the loop body is reachable")
	}
	for i, inv := range ls.Invariants {
		g := c.specEval(inv.Expr, st, x.entryState(fr), x.entryVars(fr))
		hint := fmt.Sprintf("loop%d.%d%s", ord, i+1, clauseLabel(inv))
		x.oblige(st, kind, hint, x.tagsOr(inv.Tags, fr), g, p, inv.Text)
	}
}

func (x *Exec) assumeInvariants(fr *Frame, st *State, ls *LoopSpec) {
	c := x.ctx(fr, st)
	c.loopSpec = ls
	for _, inv := range ls.Invariants {
		st.assume(c.specEval(inv.Expr, st, x.entryState(fr), x.entryVars(fr)))
	}
}

func (x *Exec) havocTargets(fr *Frame, st *State, nodes ...ast.Node) {
	ws := &writeSet{x: x, fr: fr, keys: map[string]bool{}}
	for _, n := range nodes {
		if n != nil {
			ws.walk(n, fr.info, fr.fi.Pkg, 0)
		}
	}
	if ws.all {
		x.havocAll(st)
	}
	for k := range ws.keys {
		if isSpecialKey(k) {
			srt := SInt
			if k[0] == 'H' {
				srt = ArraySort(SRef, SInt)
			}
			st.store[k] = Scalar(Fresh("havoc."+k[3:], srt), nil)
			continue
		}
		if strings.HasPrefix(k, "G:") {
			g := x.contracts().GhostIdx[k[2:]]
			if g != nil {
				st.store[k] = x.ghostShape(g, "havoc.ghost."+g.Name, true)
			}
			continue
		}
		if strings.HasPrefix(k, "L:") {
			if v, ok := st.store[k]; ok {
				st.store[k] = x.freshValue("loop."+localName(k), v.T)
			}
			continue
		}
		if ws.all {
			continue
		}
		if _, ok := x.locTypes[k]; ok {
			x.havocKey(st, k)
		} else if _, ok := st.store[k]; ok {
			x.havocKey(st, k)
		} else if ws.types[k] != nil {
			x.locTypes[k] = ws.types[k]
			x.havocKey(st, k)
		}
	}
}

func localName(k string) string {
	// L:<act>:name@pos
	p := strings.SplitN(k, ":", 3)
	n := p[len(p)-1]
	if i := strings.Index(n, "@"); i >= 0 {
		n = n[:i]
	}
	return n
}

func (x *Exec) forStmt(fr *Frame, s *ast.ForStmt, st *State) []*State {
	ls, ord := x.loopSpec(fr, s.Pos())
	if s.Init != nil {
		sts := x.stmt(fr, s.Init, st)
		if len(sts) != 1 {
			return nil
		}
		st = sts[0]
	}
	// a counting loop `for i := ...` exposes its counter to the contracts as idx, like a range loop does
	if as, ok := s.Init.(*ast.AssignStmt); ok && as.Tok == token.DEFINE && len(as.Lhs) == 1 {
		if id, ok := as.Lhs[0].(*ast.Ident); ok {
			if v, ok := fr.info.Defs[id].(*types.Var); ok {
				if k, ok := fr.keys[v]; ok {
					fr.scope["idx"] = k
				}
			}
		}
	}
	x.checkInvariants(fr, st, ls, ord, "loop-entry", s.Pos())
	x.havocTargets(fr, st, s.Body, s.Post, s.Cond)
	x.assumeInvariants(fr, st, ls)
	lc := &loopCtx{}
	fr.loops = append(fr.loops, lc)
	// body path
	stB := st.Clone()
	cond := True
	if s.Cond != nil {
		cond = x.ctx(fr, stB).eval(s.Cond).S
		stB.assume(cond)
	}
	outsB := x.join(append(lc.continues, x.block(fr, s.Body.List, []*State{stB})...))
	for _, outB := range outsB {
		if s.Post != nil {
			ps := x.stmt(fr, s.Post, outB)
			if len(ps) != 1 {
				continue
			}
			outB = ps[0]
		}
		x.checkInvariants(fr, outB, ls, ord, "loop-step", s.Pos())
	}
	fr.loops = fr.loops[:len(fr.loops)-1]
	// exit path
	var stE *State
	if s.Cond != nil {
		stE = st.Clone()
		c2 := x.ctx(fr, stE)
		x.quiet++
		ec := c2.eval(s.Cond).S
		x.quiet--
		stE.assume(Not(ec))
	}
	return x.join(append(lc.breaks, stE))
}

func (x *Exec) rangeStmt(fr *Frame, s *ast.RangeStmt, st *State) []*State {
	ls, ord := x.loopSpec(fr, s.Pos())
	c := x.ctx(fr, st)
	rv := c.eval(s.X)
	T := c.typeOf(s.X)
	idxKey := fmt.Sprintf("L:%d:$idx%d", fr.act, ord)
	keyIdent, _ := s.Key.(*ast.Ident)
	valIdent, _ := s.Value.(*ast.Ident)
	if (s.Key != nil && keyIdent == nil) || (s.Value != nil && valIdent == nil) {
		panic(engineErr("%s: range with non-identifier targets not supported", x.pos(s.Pos())))
	}
	bind := func(st *State, id *ast.Ident, v Value) {
		if id == nil || id.Name == "_" {
			return
		}
		if s.Tok == token.DEFINE {
			x.defineVar(fr, st, id, v)
		} else {
			x.assign(x.ctx(fr, st), id, v)
		}
	}
	intT := types.Typ[types.Int]
	switch rv.Kind {
	case KSlice:
		n := rv.Len
		st.store[idxKey] = Scalar(IntLit(0), intT)
		fr.scope["idx"] = idxKey
		if keyIdent != nil && keyIdent.Name != "_" {
			bind(st, keyIdent, Scalar(IntLit(0), intT))
		}
		x.checkInvariants(fr, st, ls, ord, "loop-entry", s.Pos())
		x.havocTargets(fr, st, s.Body)
		i := Fresh("range.i", SInt)
		st.store[idxKey] = Scalar(i, intT)
		st.assume(And(Le(IntLit(0), i), Le(i, n)))
		if keyIdent != nil && keyIdent.Name != "_" {
			bind(st, keyIdent, Scalar(i, intT))
		}
		x.assumeInvariants(fr, st, ls)
		lc := &loopCtx{}
		fr.loops = append(fr.loops, lc)
		stB := st.Clone()
		stB.assume(Lt(i, n))
		if valIdent != nil && valIdent.Name != "_" {
			// live read of the ranged expression (elements are read from the shared backing array)
			live := rv
			if !containsCall(s.X) {
				x.quiet++
				live = x.ctx(fr, stB).eval(s.X)
				x.quiet--
			}
			ev := Scalar(Select(live.Arr, i), elemTypeOrNil(T))
			x.valueFacts(ev)
			bind(stB, valIdent, ev)
		}
		for _, outB := range x.join(append(lc.continues, x.block(fr, s.Body.List, []*State{stB})...)) {
			ni := Add(i, IntLit(1))
			outB.store[idxKey] = Scalar(ni, intT)
			if keyIdent != nil && keyIdent.Name != "_" {
				bind(outB, keyIdent, Scalar(ni, intT))
			}
			x.checkInvariants(fr, outB, ls, ord, "loop-step", s.Pos())
		}
		fr.loops = fr.loops[:len(fr.loops)-1]
		stE := st.Clone()
		stE.assume(Eq(i, n))
		return x.join(append(lc.breaks, stE))
	case KMap:
		// ghost: the set of keys already visited, and the key set at loop start
		m := types.Unalias(T).Underlying().(*types.Map)
		ks := x.scalarSort(m.Key())
		visKey := fmt.Sprintf("L:%d:$visited%d", fr.act, ord)
		has0Key := fmt.Sprintf("L:%d:$rangehas%d", fr.act, ord)
		fr.scope["$visited"] = visKey
		fr.scope["$rangehas"] = has0Key
		st.store[visKey] = Scalar(ConstArray(ArraySort(ks, SBool), False), nil)
		st.store[has0Key] = Scalar(rv.Has, nil)
		x.checkInvariants(fr, st, ls, ord, "loop-entry", s.Pos())
		x.havocTargets(fr, st, s.Body)
		vis := Fresh("range.visited", ArraySort(ks, SBool))
		st.store[visKey] = Scalar(vis, nil)
		x.assumeInvariants(fr, st, ls)
		lc := &loopCtx{}
		fr.loops = append(fr.loops, lc)
		stB := st.Clone()
		k := x.freshValue("range.key", m.Key())
		stB.assume(And(Select(rv.Has, k.S), Not(Select(vis, k.S))))
		bind(stB, keyIdent, k)
		ev := Scalar(Select(rv.Arr, k.S), m.Elem())
		x.valueFacts(ev)
		bind(stB, valIdent, ev)
		for _, outB := range x.join(append(lc.continues, x.block(fr, s.Body.List, []*State{stB})...)) {
			outB.store[visKey] = Scalar(Store(vis, k.S, True), nil)
			x.checkInvariants(fr, outB, ls, ord, "loop-step", s.Pos())
		}
		fr.loops = fr.loops[:len(fr.loops)-1]
		stE := st.Clone()
		// at exit every key that was present at the start and is still present has been visited
		hasNow := rv.Has
		if !containsCall(s.X) {
			x.quiet++
			hasNow = x.ctx(fr, stE).eval(s.X).Has
			x.quiet--
		}
		bvarSeq++
		bk := BVar(fmt.Sprintf("k!exit%d", bvarSeq), ks)
		stE.assume(Forall([]*Term{bk}, Implies(And(Select(rv.Has, bk), Select(hasNow, bk)), Select(vis, bk))))
		// a range over a map that was not empty at the start runs its body at least once (the first
		// iteration happens before the body can delete anything), unless it was left by break
		bvarSeq++
		bk2 := BVar(fmt.Sprintf("k!first%d", bvarSeq), ks)
		w := Fresh("range.first", ks)
		stE.assume(Forall([]*Term{bk2}, Implies(Select(rv.Has, bk2), And(Select(vis, w), Select(rv.Has, w)))))
		return x.join(append(lc.breaks, stE))
	case KScalar:
		if rv.S.Sort == SInt { // range over integer
			n := rv.S
			if keyIdent != nil && keyIdent.Name != "_" {
				bind(st, keyIdent, Scalar(IntLit(0), intT)) // the counter is 0 where the invariant is first checked
			}
			x.checkInvariants(fr, st, ls, ord, "loop-entry", s.Pos())
			x.havocTargets(fr, st, s.Body)
			i := Fresh("range.i", SInt)
			st.assume(And(Le(IntLit(0), i), Or(Le(i, n), Eq(i, IntLit(0)))))
			bind(st, keyIdent, Scalar(i, intT))
			x.assumeInvariants(fr, st, ls)
			lc := &loopCtx{}
			fr.loops = append(fr.loops, lc)
			stB := st.Clone()
			stB.assume(Lt(i, n))
			for _, outB := range x.join(append(lc.continues, x.block(fr, s.Body.List, []*State{stB})...)) {
				bind(outB, keyIdent, Scalar(Add(i, IntLit(1)), intT))
				x.checkInvariants(fr, outB, ls, ord, "loop-step", s.Pos())
			}
			fr.loops = fr.loops[:len(fr.loops)-1]
			stE := st.Clone()
			stE.assume(Ge(i, n))
			return x.join(append(lc.breaks, stE))
		}
	}
	panic(engineErr("%s: range over %s not supported", x.pos(s.Pos()), exprText(s.X)))
}

func containsCall(e ast.Expr) bool {
	found := false
	ast.Inspect(e, func(n ast.Node) bool {
		if _, ok := n.(*ast.CallExpr); ok {
			found = true
		}
		return !found
	})
	return found
}
