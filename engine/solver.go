package main

// Solver portfolio: z3-new first, then z3 4.8.12 and cvc5 raced.

import (
	"bufio"
	"context"
	"encoding/json"
	"fmt"
	"os"
	"os/exec"
	"path/filepath"
	"strings"
	"sync"
	"sync/atomic"
	"time"
)

type Verdict int

const (
	VUnknown Verdict = iota
	VUnsat
	VSat
)

func (v Verdict) String() string { return [...]string{"unknown", "unsat", "sat"}[v] }

type SolveResult struct {
	Verdict Verdict
	Solver  string
	Model   string // raw text after the first line (get-value output) when sat
	Ms      int64
	Tried   []string
	All     map[string]Verdict // thorough mode: verdict per solver
}

var (
	scratchDir  string
	scratchOnce sync.Once
	scriptSeq   int64
)

func scratch() string {
	scratchOnce.Do(func() {
		d, err := os.MkdirTemp("", "govc-")
		if err != nil {
			panic(err)
		}
		scratchDir = d
	})
	return scratchDir
}

func cleanupScratch() {
	if scratchDir != "" && !keepScripts {
		os.RemoveAll(scratchDir)
	}
}

type solverSpec struct {
	name string
	args func(file string, ms int) []string
}

var solvers = []solverSpec{
	{"z3-new", func(f string, ms int) []string { return []string{"z3-new", fmt.Sprintf("-t:%d", ms), f} }},
	{"z3", func(f string, ms int) []string { return []string{"z3", fmt.Sprintf("-t:%d", ms), f} }},
	{"cvc5", func(f string, ms int) []string {
		return []string{"cvc5", "--lang=smt2", "--produce-models", fmt.Sprintf("--tlimit=%d", ms), f}
	}},
}

func runOne(ctx context.Context, sp solverSpec, file string, ms int) (Verdict, string) {
	a := sp.args(file, ms)
	cctx, cancel := context.WithTimeout(ctx, time.Duration(ms+2000)*time.Millisecond)
	defer cancel()
	cmd := exec.CommandContext(cctx, a[0], a[1:]...)
	out, _ := cmd.CombinedOutput()
	s := strings.TrimSpace(string(out))
	first, rest, _ := strings.Cut(s, "\n")
	switch strings.TrimSpace(first) {
	case "unsat":
		return VUnsat, ""
	case "sat":
		return VSat, rest
	}
	return VUnknown, s
}

// Solve decides one script.  all=true runs every solver to completion and
// reports disagreement as unknown (thorough tier).  When a worker pool was
// started (small helper processes forked before the packages were loaded, so
// that spawning solvers does not pay for the verifier's heap), it is used.
func Solve(script string, ms int, all bool) SolveResult {
	n := atomic.AddInt64(&scriptSeq, 1)
	file := filepath.Join(scratch(), fmt.Sprintf("q%d.smt2", n))
	if err := os.WriteFile(file, []byte(script), 0o644); err != nil {
		panic(err)
	}
	if !keepScripts {
		defer os.Remove(file)
	}
	if pool != nil {
		return pool.solve(file, ms, all)
	}
	return solveFile(file, ms, all)
}

func solveFile(file string, ms int, all bool) SolveResult {
	start := time.Now()
	res := SolveResult{All: map[string]Verdict{}}
	ctx, cancel := context.WithCancel(context.Background())
	defer cancel()
	if !all {
		// stage 1: z3-new alone with a short budget
		first := ms / 4
		if first < 2000 {
			first = min(ms, 2000)
		}
		v, m := runOne(ctx, solvers[0], file, first)
		res.Tried = append(res.Tried, solvers[0].name)
		if v != VUnknown {
			res.Verdict, res.Solver, res.Model = v, solvers[0].name, m
			res.Ms = time.Since(start).Milliseconds()
			return res
		}
	}
	type r struct {
		name string
		v    Verdict
		m    string
	}
	ch := make(chan r, len(solvers))
	for _, sp := range solvers {
		sp := sp
		go func() {
			v, m := runOne(ctx, sp, file, ms)
			ch <- r{sp.name, v, m}
		}()
	}
	for range solvers {
		x := <-ch
		res.Tried = append(res.Tried, x.name)
		res.All[x.name] = x.v
		if x.v != VUnknown && !all {
			res.Verdict, res.Solver, res.Model = x.v, x.name, x.m
			break
		}
		if all && x.v != VUnknown {
			if res.Verdict == VUnknown {
				res.Verdict, res.Solver, res.Model = x.v, x.name, x.m
			} else if res.Verdict != x.v {
				res.Verdict = VUnknown
				res.Solver = "DISAGREE"
			}
		}
	}
	res.Ms = time.Since(start).Milliseconds()
	return res
}

// ---- worker pool ------------------------------------------------------------

type worker struct {
	cmd *exec.Cmd
	in  *bufio.Writer
	out *bufio.Reader
}

type workerPool struct {
	free chan *worker
	all  []*worker
}

var pool *workerPool

var keepScripts bool

// StartWorkers forks n copies of this binary in "solve-worker" mode.
func StartWorkers(n int) {
	self, err := os.Executable()
	if err != nil {
		return
	}
	p := &workerPool{free: make(chan *worker, n)}
	for i := 0; i < n; i++ {
		cmd := exec.Command(self, "solve-worker")
		stdin, err1 := cmd.StdinPipe()
		stdout, err2 := cmd.StdoutPipe()
		cmd.Stderr = os.Stderr
		if err1 != nil || err2 != nil || cmd.Start() != nil {
			continue
		}
		w := &worker{cmd: cmd, in: bufio.NewWriter(stdin), out: bufio.NewReaderSize(stdout, 1<<20)}
		p.all = append(p.all, w)
		p.free <- w
	}
	if len(p.all) > 0 {
		pool = p
	}
}

func StopWorkers() {
	if pool == nil {
		return
	}
	for _, w := range pool.all {
		w.in.WriteString("quit\n")
		w.in.Flush()
		w.cmd.Process.Kill()
		w.cmd.Wait()
	}
	pool = nil
}

func (p *workerPool) solve(file string, ms int, all bool) SolveResult {
	w := <-p.free
	defer func() { p.free <- w }()
	a := 0
	if all {
		a = 1
	}
	fmt.Fprintf(w.in, "%d\t%d\t%s\n", ms, a, file)
	w.in.Flush()
	line, err := w.out.ReadBytes('\n')
	var r SolveResult
	if err != nil || json.Unmarshal(line, &r) != nil {
		return solveFile(file, ms, all)
	}
	return r
}

// workerMain is the body of a solve-worker process.
func workerMain() {
	in := bufio.NewReader(os.Stdin)
	out := bufio.NewWriter(os.Stdout)
	for {
		line, err := in.ReadString('\n')
		if err != nil || strings.TrimSpace(line) == "quit" {
			return
		}
		f := strings.SplitN(strings.TrimSpace(line), "\t", 3)
		if len(f) != 3 {
			continue
		}
		var ms, a int
		fmt.Sscan(f[0], &ms)
		fmt.Sscan(f[1], &a)
		r := solveFile(f[2], ms, a == 1)
		b, _ := json.Marshal(r)
		out.Write(b)
		out.WriteByte('\n')
		out.Flush()
	}
}
