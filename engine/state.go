package main

// Symbolic state, lazy initial values with epochs, merging, facts, obligations.

import (
	"fmt"
	"go/ast"
	"go/token"
	"go/types"
	"math/big"
	"sort"
	"strings"
)

func sortStrings(s []string) { sort.Strings(s) }

// Epoch names the "generation" of not-yet-touched locations.  The entry epoch
// has id ""; a havoc of everything starts a fresh epoch; a merge of two states
// in different epochs yields a derived epoch.
type Epoch struct {
	id   string
	cond *Term
	a, b *Epoch
}

var entryEpoch = &Epoch{id: ""}

type State struct {
	pc    []*Term
	store map[string]Value
	epoch *Epoch
	after map[string]*State // the state right after the most recent contracted call of each function on this path (aftercall); key "<f" = right before it (beforecall)
}

func newState() *State { return &State{store: map[string]Value{}, epoch: entryEpoch} }

func (s *State) Clone() *State {
	n := &State{pc: s.pc[:len(s.pc):len(s.pc)], store: make(map[string]Value, len(s.store)), epoch: s.epoch}
	for k, v := range s.store {
		n.store[k] = v
	}
	if len(s.after) > 0 {
		n.after = make(map[string]*State, len(s.after))
		for k, v := range s.after {
			n.after[k] = v
		}
	}
	return n
}

func (s *State) assume(t *Term) {
	if t == True {
		return
	}
	s.pc = append(s.pc[:len(s.pc):len(s.pc)], t)
}

func (s *State) pathCond() *Term { return And(s.pc...) }

type Obligation struct {
	Name   string
	PosKey int
	Kind   string
	Tags   []string
	Func   string
	Pkg    string
	Pos    string
	Clause string
	Hyps   []*Term
	Goal   *Term
	Facts  map[int]*Term
	// results
	Verdict Verdict
	Solver  string
	Ms      int64
	Model   string
	QF      bool
	Inputs  []*Term // scalar input variables to report in models
	Known   bool
	Note    string
	Axioms  []*Term
}

type Exec struct {
	ranges       map[*Term][2]*big.Int  // type ranges recorded for terms (bounds)
	funcLits     map[*Term]*ast.FuncLit // function literals met so far, by the term that names them
	funcLitOrder []*Term
	pkgVars      map[*types.Var]Value // evaluated initialisers of package variables that are never assigned
	freshRefs    []*Term              // objects allocated while executing the function under verification
	w            *World
	pkg          *PkgInfo
	fn           *FuncInfo
	obls         []*Obligation
	facts        map[int]*Term
	factKeys     map[int]*Term
	locTypes     map[string]types.Type
	quiet        int
	depth        int
	names        map[string]int
	prefix       []string
	warnings     map[string]bool
	actSeq       int
	frames       []*Frame
	inputs       []*Term
	inlined      map[string]bool
	axioms       []*Term // quantified background axioms (count functions etc.)
	ufRange      map[string]*Term
	noFacts      bool
	counts       map[string]*countDef
}

func newExec(w *World, pkg *PkgInfo, fn *FuncInfo) *Exec {
	return &Exec{w: w, pkg: pkg, fn: fn, facts: map[int]*Term{}, factKeys: map[int]*Term{}, locTypes: map[string]types.Type{},
		ufRange: map[string]*Term{}, names: map[string]int{}, warnings: map[string]bool{}, inlined: map[string]bool{}, counts: map[string]*countDef{}}
}

func (x *Exec) contracts() *Contracts { return x.pkg.Contracts }

func (x *Exec) contractsOf(path string) *Contracts {
	if p := x.w.Pkgs[path]; p != nil {
		return p.Contracts
	}
	return newContracts()
}

func (x *Exec) warn(f string, a ...any) { x.warnings[fmt.Sprintf(f, a...)] = true }

func (x *Exec) addFact(key *Term, fact *Term) {
	if fact == True {
		return
	}
	if key.bound || fact.bound {
		// facts about terms under a binder cannot be stated at top level; for
		// uninterpreted getters a quantified range axiom is recorded instead
		if key.Op == "app" && key.Sort == SInt {
			if _, done := x.ufRange[key.Name]; !done {
				d := declTable[key.Name]
				var bvs []*Term
				for i, s := range d.Args {
					bvs = append(bvs, BVar(fmt.Sprintf("a%d!%s", i, key.Name), s))
				}
				app := mk("app", key.Name, SInt, bvs...)
				m := map[*Term]*Term{key: app}
				x.ufRange[key.Name] = Forall(bvs, Subst(fact, m))
			}
		}
		return
	}
	if old, ok := x.facts[key.id]; ok {
		x.facts[key.id] = And(old, fact)
	} else {
		x.facts[key.id] = fact
		x.factKeys[key.id] = key
	}
}

func (x *Exec) rangeFact(t *Term, T types.Type) {
	if t.Sort != SInt || t.IsLit() {
		return
	}
	if f := inRange(t, T); f != True {
		x.addFact(t, f)
	}
	if lo, hi, ok := intRange(T); ok {
		if x.ranges == nil {
			x.ranges = map[*Term][2]*big.Int{}
		}
		if old, seen := x.ranges[t]; seen {
			// keep the tighter interval
			if old[0].Cmp(lo) > 0 {
				lo = old[0]
			}
			if old[1].Cmp(hi) < 0 {
				hi = old[1]
			}
		}
		x.ranges[t] = [2]*big.Int{lo, hi}
	}
}

func (x *Exec) noteRange(t *Term, lo, hi *big.Int) {
	if t == nil || t.IsLit() {
		return
	}
	if x.ranges == nil {
		x.ranges = map[*Term][2]*big.Int{}
	}
	if _, seen := x.ranges[t]; !seen {
		x.ranges[t] = [2]*big.Int{lo, hi}
	}
}

// bounds: a conservative interval for an integer term, from the type ranges recorded for its leaves (structural
// interval arithmetic; no path conditions).  Used to drop wrap-around cases that cannot happen.
func (x *Exec) bounds(t *Term, depth int) (lo, hi *big.Int, ok bool) {
	if t == nil || t.Sort != SInt || depth > 24 {
		return nil, nil, false
	}
	if t.IsLit() {
		v := t.Big()
		return v, v, true
	}
	if r, seen := x.ranges[t]; seen {
		return r[0], r[1], true
	}
	switch t.Op {
	case "+", "-", "*":
		if len(t.Args) != 2 {
			return nil, nil, false
		}
		al, ah, ok1 := x.bounds(t.Args[0], depth+1)
		bl, bh, ok2 := x.bounds(t.Args[1], depth+1)
		if !ok1 || !ok2 {
			return nil, nil, false
		}
		switch t.Op {
		case "+":
			return new(big.Int).Add(al, bl), new(big.Int).Add(ah, bh), true
		case "-":
			return new(big.Int).Sub(al, bh), new(big.Int).Sub(ah, bl), true
		default:
			c := []*big.Int{new(big.Int).Mul(al, bl), new(big.Int).Mul(al, bh), new(big.Int).Mul(ah, bl), new(big.Int).Mul(ah, bh)}
			lo, hi = c[0], c[0]
			for _, v := range c[1:] {
				if v.Cmp(lo) < 0 {
					lo = v
				}
				if v.Cmp(hi) > 0 {
					hi = v
				}
			}
			return lo, hi, true
		}
	case "ite":
		al, ah, ok1 := x.bounds(t.Args[1], depth+1)
		bl, bh, ok2 := x.bounds(t.Args[2], depth+1)
		if !ok1 || !ok2 {
			return nil, nil, false
		}
		if bl.Cmp(al) < 0 {
			al = bl
		}
		if bh.Cmp(ah) > 0 {
			ah = bh
		}
		return al, ah, true
	case "mod":
		// Euclidean: 0 <= a mod b < |b| for b != 0
		bl, bh, ok2 := x.bounds(t.Args[1], depth+1)
		if !ok2 {
			return nil, nil, false
		}
		m := new(big.Int).Abs(bl)
		if a := new(big.Int).Abs(bh); a.Cmp(m) > 0 {
			m = a
		}
		if m.Sign() == 0 {
			return nil, nil, false
		}
		return big.NewInt(0), new(big.Int).Sub(m, big.NewInt(1)), true
	}
	return nil, nil, false
}

func (x *Exec) pos(p token.Pos) string {
	pp := x.w.Fset.Position(p)
	f := pp.Filename
	if i := strings.LastIndex(f, "/"); i >= 0 {
		f = f[i+1:]
	}
	return fmt.Sprintf("%s:%d", f, pp.Line)
}

// oblige records a proof obligation under the current path condition.
func (x *Exec) oblige(st *State, kind, hint string, tags []string, goal *Term, p token.Pos, clause string) {
	if x.quiet > 0 {
		return
	}
	base := x.fn.Pkg.Name + "." + x.fn.Key + "/"
	if len(x.prefix) > 0 {
		base += strings.Join(x.prefix, "/") + "/"
	}
	base += kind
	if hint != "" {
		base += ":" + hint
	}
	name := base
	o := &Obligation{Name: name, PosKey: int(p), Kind: kind, Tags: tags, Func: x.fn.Key, Pkg: x.fn.Pkg.Name, Pos: x.pos(p), Clause: clause,
		Hyps: st.pc[:len(st.pc):len(st.pc)], Goal: goal}
	x.obls = append(x.obls, o)
}

// ---- lazy initial values ---------------------------------------------

func (x *Exec) lazyInit(key string, T types.Type, ep *Epoch) Value {
	if ep.a != nil {
		va := x.lazyInit(key, T, ep.a)
		vb := x.lazyInit(key, T, ep.b)
		return zip2(va, vb, func(p, q *Term) *Term { return Ite(ep.cond, p, q) })
	}
	name := key[2:]
	if ep.id != "" {
		name += "@" + ep.id
	}
	lift := strings.HasPrefix(key, "H:")
	if !lift {
		return x.symbolic(name, T, func(n string, s Sort) *Term { return Var(n, s) })
	}
	// heap field: every component is an array from Ref
	x.noFacts = true // facts do not apply to the lifted arrays themselves
	v := x.symbolic("heap."+name, T, func(n string, s Sort) *Term { return Var(n, ArraySort(SRef, s)) })
	x.noFacts = false
	return v
}

func (x *Exec) load(st *State, key string, T types.Type) Value {
	if v, ok := st.store[key]; ok {
		return v
	}
	if isSpecialKey(key) {
		return Scalar(x.ghostInt(st, key), nil)
	}
	if strings.HasPrefix(key, "G:") {
		g := x.contracts().GhostIdx[key[2:]]
		if g == nil {
			panic(engineErr("unknown ghost %s", key))
		}
		v := x.lazyGhost(g, st.epoch)
		st.store[key] = v
		return v
	}
	if T == nil {
		T = x.locTypes[key]
	}
	if T == nil {
		panic(engineErr("load of unknown location %s", key))
	}
	x.locTypes[key] = T
	v := x.lazyInit(key, T, st.epoch)
	st.store[key] = v
	return v
}

func (x *Exec) storeTo(st *State, key string, v Value) {
	if v.T != nil {
		if _, ok := x.locTypes[key]; !ok {
			x.locTypes[key] = v.T
		}
	}
	st.store[key] = v
}

var epochSeq int

// havocAll forgets every static, heap and ghost location.
func (x *Exec) havocAll(st *State) {
	for k := range st.store {
		if !strings.HasPrefix(k, "L:") {
			delete(st.store, k)
		}
	}
	epochSeq++
	st.epoch = &Epoch{id: fmt.Sprintf("e%d", epochSeq)}
}

func (x *Exec) havocKey(st *State, key string) {
	T := x.locTypes[key]
	if T == nil {
		if v, ok := st.store[key]; ok && v.T != nil {
			T = v.T
		} else {
			panic(engineErr("havoc of unknown location %s", key))
		}
	}
	if strings.HasPrefix(key, "H:") {
		epochSeq++
		st.store[key] = x.lazyInit(key, T, &Epoch{id: fmt.Sprintf("h%d", epochSeq)})
		return
	}
	v := x.freshValue("havoc."+key[2:], T)
	st.store[key] = v
}

// merge joins two states that were cloned from a common ancestor.
func (x *Exec) merge(a, b *State) *State {
	if a == nil {
		return b
	}
	if b == nil {
		return a
	}
	k := 0
	for k < len(a.pc) && k < len(b.pc) && a.pc[k] == b.pc[k] {
		k++
	}
	ra := And(a.pc[k:]...)
	rb := And(b.pc[k:]...)
	out := &State{pc: a.pc[:k:k], store: map[string]Value{}, epoch: a.epoch}
	for name, sa := range a.after {
		if b.after[name] == sa {
			if out.after == nil {
				out.after = map[string]*State{}
			}
			out.after[name] = sa
		}
	}
	out.assume(Or(ra, rb))
	if a.epoch != b.epoch {
		out.epoch = &Epoch{cond: ra, a: a.epoch, b: b.epoch}
	}
	keys := map[string]bool{}
	for key := range a.store {
		keys[key] = true
	}
	for key := range b.store {
		keys[key] = true
	}
	for key := range keys {
		va, oka := a.store[key]
		vb, okb := b.store[key]
		if strings.HasPrefix(key, "L:") {
			if !oka || !okb {
				continue // out of scope on one side
			}
		} else {
			if !oka {
				va = x.load(a, key, vb.T)
			}
			if !okb {
				vb = x.load(b, key, va.T)
			}
		}
		if sameValue(va, vb) {
			out.store[key] = va
			continue
		}
		if va.Kind != vb.Kind {
			if strings.HasPrefix(key, "L:") {
				continue
			}
			panic(engineErr("merge: location %s has different shapes", key))
		}
		if va.Kind == KScalar && va.S.Sort != vb.S.Sort {
			panic(engineErr("merge: location %s has sorts %v / %v", key, va.S.Sort, vb.S.Sort))
		}
		out.store[key] = zip2(va, vb, func(p, q *Term) *Term { return Ite(ra, p, q) })
	}
	return out
}

func (x *Exec) mergeAll(sts []*State) *State {
	var out *State
	for _, s := range sts {
		out = x.merge(out, s)
	}
	return out
}

// nameSites gives path instances of one source site the same name, and numbers
// distinct sites that share a base name in source order.
func nameSites(obls []*Obligation) {
	byBase := map[string][]int{}
	for _, o := range obls {
		found := false
		for _, p := range byBase[o.Name] {
			if p == o.PosKey {
				found = true
			}
		}
		if !found {
			byBase[o.Name] = append(byBase[o.Name], o.PosKey)
		}
	}
	for _, ps := range byBase {
		sort.Ints(ps)
	}
	for _, o := range obls {
		ps := byBase[o.Name]
		if len(ps) > 1 {
			for i, p := range ps {
				if p == o.PosKey && i > 0 {
					o.Name = fmt.Sprintf("%s#%d", o.Name, i+1)
					break
				}
			}
		}
	}
}
