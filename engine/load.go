package main

// Loading /repo with go/packages (tag verif) and indexing functions.

import (
	"fmt"
	"go/ast"
	"go/token"
	"go/types"
	"os"
	"path/filepath"
	"sort"
	"strings"

	"golang.org/x/tools/go/packages"
)

type FuncInfo struct {
	Pkg  *PkgInfo
	Decl *ast.FuncDecl
	Obj  *types.Func
	Key  string // "(*DBFT).checkCommit"
	Spec *FuncSpec
}

type PkgInfo struct {
	P         *packages.Package
	Name      string
	Contracts *Contracts
	Funcs     map[string]*FuncInfo
	ByObj     map[*types.Func]*FuncInfo
	Order     []string
}

type World struct {
	Fset *token.FileSet
	Pkgs map[string]*PkgInfo // by package path
	Repo string
}

func recvTypeName(t ast.Expr) (name string, ptr bool) {
	switch x := t.(type) {
	case *ast.StarExpr:
		n, _ := recvTypeName(x.X)
		return n, true
	case *ast.IndexExpr:
		return recvTypeName(x.X)
	case *ast.IndexListExpr:
		return recvTypeName(x.X)
	case *ast.Ident:
		return x.Name, false
	case *ast.ParenExpr:
		return recvTypeName(x.X)
	}
	return "?", false
}

func funcKey(d *ast.FuncDecl) string {
	if d.Recv == nil || len(d.Recv.List) == 0 {
		return d.Name.Name
	}
	n, ptr := recvTypeName(d.Recv.List[0].Type)
	if ptr {
		return "(*" + n + ")." + d.Name.Name
	}
	return "(" + n + ")." + d.Name.Name
}

func LoadWorld(repo string) (*World, error) {
	cfg := &packages.Config{
		Mode: packages.NeedName | packages.NeedFiles | packages.NeedCompiledGoFiles | packages.NeedImports |
			packages.NeedTypes | packages.NeedTypesSizes | packages.NeedSyntax | packages.NeedTypesInfo | packages.NeedDeps,
		Dir:        repo,
		BuildFlags: []string{"-tags=verif"},
		Env: append(os.Environ(), "PATH=/opt/veriftools/go1.26.8/bin:"+os.Getenv("PATH"), "GOFLAGS=-mod=mod", "GOPROXY=off",
			"GOSUMDB=off", "GOTOOLCHAIN=local"),
	}
	pkgs, err := packages.Load(cfg, "./...")
	if err != nil {
		return nil, err
	}
	w := &World{Pkgs: map[string]*PkgInfo{}, Repo: repo}
	for _, p := range pkgs {
		if len(p.Errors) > 0 {
			return nil, fmt.Errorf("package %s: %v", p.PkgPath, p.Errors[0])
		}
		w.Fset = p.Fset
		pi := &PkgInfo{P: p, Name: p.Name, Contracts: newContracts(), Funcs: map[string]*FuncInfo{}, ByObj: map[*types.Func]*FuncInfo{}}
		for _, f := range p.Syntax {
			for _, d := range f.Decls {
				fd, ok := d.(*ast.FuncDecl)
				if !ok || fd.Body == nil {
					continue
				}
				obj, _ := p.TypesInfo.Defs[fd.Name].(*types.Func)
				fi := &FuncInfo{Pkg: pi, Decl: fd, Obj: obj, Key: funcKey(fd)}
				pi.Funcs[fi.Key] = fi
				pi.ByObj[obj] = fi
				pi.Order = append(pi.Order, fi.Key)
			}
		}
		sort.Strings(pi.Order)
		// contract files of this package
		if len(p.GoFiles) > 0 {
			dir := filepath.Dir(p.GoFiles[0])
			matches, _ := filepath.Glob(filepath.Join(dir, "contracts*_verif.go"))
			sort.Strings(matches)
			for _, m := range matches {
				if err := ParseContracts(m, pi.Contracts); err != nil {
					return nil, err
				}
			}
		}
		for k, s := range pi.Contracts.Funcs {
			fi, ok := pi.Funcs[k]
			if !ok {
				return nil, &AnchorError{fmt.Sprintf("contract for %s.%s has no matching function in the tree", p.Name, k)}
			}
			fi.Spec = s
		}
		w.Pkgs[p.PkgPath] = pi
	}
	return w, nil
}

// AnchorError: a contract lost its anchor (function or loop removed).
type AnchorError struct{ Msg string }

func (e *AnchorError) Error() string { return e.Msg }

func (w *World) PkgByName(name string) *PkgInfo {
	for _, p := range w.Pkgs {
		if p.Name == name || strings.HasSuffix(p.P.PkgPath, "/"+name) {
			return p
		}
	}
	return nil
}

// FuncOf finds the FuncInfo for a types.Func (using its generic origin).
func (w *World) FuncOf(f *types.Func) *FuncInfo {
	f = f.Origin()
	if f.Pkg() == nil {
		return nil
	}
	pi := w.Pkgs[f.Pkg().Path()]
	if pi == nil {
		return nil
	}
	return pi.ByObj[f]
}
