package main

// Calls through function values, and package-level variables with an initialiser.
//
//   - A package-level variable that no function of the package assigns (and whose address is not taken)
//     is the value of its initialiser; other package variables stay unknown constants.
//   - f(args) where f is a function VALUE: calling nil panics (obligation nilfunc).  If f is one of the
//     function literals met so far whose body is a single allocation-only return (new(T), &T{...}, a
//     constant), the result is that expression; otherwise the callee is unknown code: everything it could
//     reach is forgotten and the result is arbitrary.

import (
	"go/ast"
	"go/token"
	"go/types"
)

// pkgVarInit returns the value of the initialiser of package variable o when o is never written.
func (c *Ctx) pkgVarInit(o *types.Var) (Value, bool) {
	x := c.x
	if c.spec || c.info == nil {
		return Value{}, false
	}
	if v, ok := x.pkgVars[o]; ok {
		return v, v.Kind != KNone
	}
	if x.pkgVars == nil {
		x.pkgVars = map[*types.Var]Value{}
	}
	x.pkgVars[o] = Value{Kind: KNone}
	pi := x.w.Pkgs[o.Pkg().Path()]
	if pi == nil || pi != x.pkg {
		return Value{}, false
	}
	var init ast.Expr
	written := false
	for _, f := range pi.P.Syntax {
		ast.Inspect(f, func(n ast.Node) bool {
			switch s := n.(type) {
			case *ast.ValueSpec:
				for i, id := range s.Names {
					if pi.P.TypesInfo.Defs[id] == o && len(s.Values) == len(s.Names) {
						init = s.Values[i]
					}
				}
			case *ast.AssignStmt:
				for _, l := range s.Lhs {
					if rootVar(pi.P.TypesInfo, l) == o {
						written = true
					}
				}
			case *ast.IncDecStmt:
				if rootVar(pi.P.TypesInfo, s.X) == o {
					written = true
				}
			case *ast.UnaryExpr:
				if s.Op == token.AND && rootVar(pi.P.TypesInfo, s.X) == o {
					written = true
				}
			case *ast.RangeStmt:
				if (s.Key != nil && rootVar(pi.P.TypesInfo, s.Key) == o) || (s.Value != nil && rootVar(pi.P.TypesInfo, s.Value) == o) {
					written = true
				}
			}
			return true
		})
	}
	if init == nil || written {
		return Value{}, false
	}
	switch unparen(init).(type) {
	case *ast.CompositeLit, *ast.BasicLit, *ast.FuncLit:
	default:
		return Value{}, false
	}
	v := c.coerce(c.eval(init), o.Type())
	x.pkgVars[o] = v
	return v, true
}

// rootVar: the variable at the root of an lvalue expression (x, x.f, x[i], *x ...).
func rootVar(info *types.Info, e ast.Expr) *types.Var {
	for {
		switch v := unparen(e).(type) {
		case *ast.Ident:
			o, _ := info.ObjectOf(v).(*types.Var)
			return o
		case *ast.SelectorExpr:
			if _, isField := info.Selections[v]; !isField {
				o, _ := info.Uses[v.Sel].(*types.Var)
				return o
			}
			e = v.X
		case *ast.IndexExpr:
			e = v.X
		case *ast.SliceExpr:
			e = v.X
		case *ast.StarExpr:
			e = v.X
		default:
			return nil
		}
	}
}

// simpleLitResult: the single allocation-only expression a function literal returns, if it has that shape.
func simpleLitResult(fl *ast.FuncLit) (ast.Expr, bool) {
	if fl.Type.Params != nil && len(fl.Type.Params.List) > 0 {
		return nil, false
	}
	if len(fl.Body.List) != 1 {
		return nil, false
	}
	rs, ok := fl.Body.List[0].(*ast.ReturnStmt)
	if !ok || len(rs.Results) != 1 {
		return nil, false
	}
	switch r := unparen(rs.Results[0]).(type) {
	case *ast.BasicLit:
		return r, true
	case *ast.Ident:
		if r.Name == "nil" || r.Name == "true" || r.Name == "false" {
			return r, true
		}
	case *ast.UnaryExpr:
		if cl, ok := r.X.(*ast.CompositeLit); ok && r.Op == token.AND && litIsClosed(cl) {
			return r, true
		}
	case *ast.CallExpr:
		if id, ok := r.Fun.(*ast.Ident); ok && id.Name == "new" && len(r.Args) == 1 {
			return r, true
		}
	}
	return nil, false
}

func litIsClosed(cl *ast.CompositeLit) bool {
	closed := true
	ast.Inspect(cl, func(n ast.Node) bool {
		switch v := n.(type) {
		case *ast.CallExpr:
			closed = false
		case *ast.Ident:
			_ = v
		}
		return closed
	})
	return closed
}

// callValue: f(args) through a function value.
func (c *Ctx) callValue(fun ast.Expr, e *ast.CallExpr) Value {
	x := c.x
	sig, ok := types.Unalias(c.typeOf(fun)).Underlying().(*types.Signature)
	if !ok {
		panic(engineErr("%s: call form %s not supported", x.pos(e.Pos()), exprText(e.Fun)))
	}
	f := c.eval(fun)
	args := c.evalArgs(e.Args)
	c.atCall(e, args)
	if f.Kind != KScalar || f.S.Sort != SRef {
		panic(engineErr("%s: call of %s: not a function value", x.pos(e.Pos()), exprText(e.Fun)))
	}
	if !c.spec {
		c.oblige("nilfunc", exprText(e.Fun), Neq(f.S, Nil), e.Pos())
		c.st.assume(Neq(f.S, Nil)) // the paths that continue are those where the call did not panic
	}
	var rt types.Type
	switch sig.Results().Len() {
	case 0:
	case 1:
		rt = sig.Results().At(0).Type()
	default:
		rt = sig.Results()
	}
	// which literal can f be?
	type alt struct {
		t *Term
		v Value
	}
	var alts []alt
	allSimple := true
	for _, t := range x.funcLitOrder {
		fl := x.funcLits[t]
		if !types.Identical(c.typeOf(fl), c.typeOf(fun)) {
			continue
		}
		re, ok := simpleLitResult(fl)
		if !ok || rt == nil || sig.Results().Len() != 1 {
			allSimple = false
			continue
		}
		alts = append(alts, alt{t, c.coerce(c.eval(re), rt)})
	}
	if !allSimple || len(alts) == 0 {
		// unknown code
		x.warn("call through the function value %s: unknown callee, everything reachable is forgotten", exprText(e.Fun))
		x.havocAll(c.st)
		if rt == nil {
			return Value{Kind: KNone}
		}
		return c.arbitrary("callvalue", rt)
	}
	res := c.arbitrary("callvalue", rt)
	isKnown := False
	for i := len(alts) - 1; i >= 0; i-- {
		a := alts[i]
		cond := Eq(f.S, a.t)
		res = zip2(res, a.v, func(rest, v *Term) *Term { return Ite(cond, v, rest) })
		isKnown = Or(cond, isKnown)
	}
	// a function value of this type that is none of the literals met is not modelled: assumed away with a warning
	x.warn("call through the function value %s: assumed to be one of the %d function literals of its type in this package", exprText(e.Fun), len(alts))
	c.st.assume(Or(Eq(f.S, Nil), isKnown))
	return res
}
