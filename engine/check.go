package main

// `govc check`: decide one property, write evidence, report violations.

import (
	"encoding/json"
	"fmt"
	"os"
	"path/filepath"
	"regexp"
	"sort"
	"strings"
	"time"
)

type knownFinding struct {
	Property   string
	Obligation string
	Text       string
}

func loadKnown(path string) ([]knownFinding, []string) {
	data, err := os.ReadFile(path)
	if err != nil {
		return nil, nil
	}
	var out []knownFinding
	var fixed []string
	re := regexp.MustCompile(`^known:\s+property=(\S+)\s+(?:obligation|assumption)=(\S+)\s*(.*)$`)
	for _, l := range strings.Split(string(data), "\n") {
		l = strings.TrimSpace(l)
		if strings.HasPrefix(l, "fixed:") {
			fixed = append(fixed, l)
		}
		if m := re.FindStringSubmatch(l); m != nil {
			out = append(out, knownFinding{m[1], m[2], m[3]})
		}
	}
	return out, fixed
}

type siteResult struct {
	Name      string   `json:"obligation"`
	Kind      string   `json:"kind"`
	Func      string   `json:"function"`
	Pos       string   `json:"at"`
	Clause    string   `json:"clause,omitempty"`
	Verdict   string   `json:"verdict"`
	Instances int      `json:"path_instances"`
	Ms        int64    `json:"solver_ms"`
	Solvers   []string `json:"solvers"`
	Model     string   `json:"model,omitempty"`
	Note      string   `json:"note,omitempty"`
	failed    []*Obligation
}

type checkOutcome struct {
	sites      []*siteResult
	errs       []string // engine errors / lost anchors (undecided)
	funcs      []string
	inlined    map[string]bool
	warnings   map[string]bool
	scan       []string
	total      int
	genMs      int64
	solveMs    int64
	bySolver   map[string]int
	vacuityBad []string
	pkgsUsed   map[string]bool
}

func hasTag(tags []string, p string) bool {
	for _, t := range tags {
		if t == p {
			return true
		}
	}
	return false
}

// runProperty generates all obligations of the repository packages that carry
// contracts and discharges those tagged with prop.
func runProperty(w *World, prop string, cfg RunConfig, only string) *checkOutcome {
	oc := &checkOutcome{inlined: map[string]bool{}, warnings: map[string]bool{}, bySolver: map[string]int{}}
	t0 := time.Now()
	var sel []*Obligation
	counts := map[*Obligation][]*countDef{}
	var pkgPaths []string
	for p := range w.Pkgs {
		pkgPaths = append(pkgPaths, p)
	}
	sort.Strings(pkgPaths)
	type pkgScan struct {
		name string
		scan []string
		from int
	}
	var pkgScans []pkgScan
	for _, pp := range pkgPaths {
		pi := w.Pkgs[pp]
		k := pi.Contracts
		if len(k.Funcs) == 0 && len(k.Lemmas) == 0 && len(k.Writers) == 0 {
			continue
		}
		if only != "" && pi.Name != only {
			continue
		}
		scanFrom := len(sel)
		pkgScans = append(pkgScans, pkgScan{pi.Name, k.Scan, scanFrom})
		var keys []string
		for key, fi := range pi.Funcs {
			if fi.Spec != nil && !fi.Spec.Inline {
				keys = append(keys, key)
			}
			if fi.Spec != nil && fi.Spec.Inline {
				// inline functions are verified inside their callers: their anchors are checked here, so that a
				// clause whose call site disappeared is reported and not silently dropped
				if err := InlineAnchorError(fi); err != nil && (specMentionsTag(fi.Spec, prop) || hasTag(pi.Contracts.RunTags, prop)) {
					oc.errs = append(oc.errs, err.Error())
				}
			}
		}
		sort.Strings(keys)
		for _, key := range keys {
			fi := pi.Funcs[key]
			r := VerifyFunc(w, fi)
			name := pi.Name + "." + key
			if r.Err != nil {
				// an engine error (unsupported construct, lost anchor) leaves this function unverified; the
				// property is undecided only if the function's contract carries clauses of this property
				// (run-time check obligations exist in every function, so the run tags always count)
				if specMentionsTag(fi.Spec, prop) || hasTag(pi.Contracts.RunTags, prop) {
					oc.errs = append(oc.errs, r.Err.Error())
				} else {
					oc.warnings["not verified in this run (engine error, no clause of this property): "+name] = true
				}
				continue
			}
			tagged := 0
			var vac []*Obligation
			for _, o := range r.Obls {
				if o.Kind == "vacuity" {
					vac = append(vac, o)
					continue
				}
				if hasTag(o.Tags, prop) || (hasTag(o.Tags, supportTag) && specMentionsTag(fi.Spec, prop)) {
					counts[o] = r.Axioms
					sel = append(sel, o)
					tagged++
				}
			}
			if tagged > 0 {
				for _, v := range vac {
					counts[v] = r.Axioms
					sel = append(sel, v)
				}
			}
			if tagged > 0 {
				oc.funcs = append(oc.funcs, name)
				for _, in := range r.Inlined {
					oc.inlined[in] = true
				}
				for _, wm := range r.Warnings {
					oc.warnings[wm] = true
				}
			}
		}
		lo, err := VerifyLemmas(w, pi)
		if err != nil {
			oc.errs = append(oc.errs, err.Error())
		}
		for _, o := range lo {
			if hasTag(o.Tags, prop) {
				sel = append(sel, o)
			}
		}
		for _, o := range CheckRules(w, pi) {
			if hasTag(o.Tags, prop) {
				sel = append(sel, o)
			}
		}
	}
	// the assumption lists of the packages that contributed obligations of this property
	pkgsUsed := map[string]bool{}
	for i, ps := range pkgScans {
		to := len(sel)
		if i+1 < len(pkgScans) {
			to = pkgScans[i+1].from
		}
		if to > ps.from {
			oc.scan = append(oc.scan, ps.scan...)
			pkgsUsed[ps.name] = true
		}
	}
	oc.pkgsUsed = pkgsUsed
	oc.genMs = time.Since(t0).Milliseconds()
	t1 := time.Now()
	Discharge(sel, counts, cfg)
	oc.solveMs = time.Since(t1).Milliseconds()
	// group path instances by site
	bySite := map[string]*siteResult{}
	var order []string
	// a canary site is contradictory only if every path instance of it is
	vacAlive := map[string]bool{}
	for _, o := range sel {
		if o.Kind == "vacuity" && o.Verdict != VUnsat {
			vacAlive[o.Name] = true
		}
	}
	vacSeen := map[string]bool{}
	for _, o := range sel {
		if o.Kind == "vacuity" {
			if !vacAlive[o.Name] && !vacSeen[o.Name] {
				vacSeen[o.Name] = true
				oc.vacuityBad = append(oc.vacuityBad, o.Name)
			}
			continue
		}
		oc.total++
		s := bySite[o.Name]
		if s == nil {
			s = &siteResult{Name: o.Name, Kind: o.Kind, Func: o.Pkg + "." + o.Func, Pos: o.Pos, Clause: o.Clause, Verdict: "proved"}
			bySite[o.Name] = s
			order = append(order, o.Name)
		}
		s.Instances++
		s.Ms += o.Ms
		if o.Solver != "" {
			found := false
			for _, x := range s.Solvers {
				if x == o.Solver {
					found = true
				}
			}
			if !found {
				s.Solvers = append(s.Solvers, o.Solver)
			}
			oc.bySolver[o.Solver]++
		}
		if o.Verdict != VUnsat {
			s.failed = append(s.failed, o)
			if o.Verdict == VSat {
				s.Verdict = "failed"
				s.Model = o.Model
			} else if s.Verdict != "failed" {
				s.Verdict = "failed-nomodel"
				s.Note = o.Note
			}
		}
	}
	for _, n := range order {
		oc.sites = append(oc.sites, bySite[n])
	}
	return oc
}

func sanitize(s string) string {
	re := regexp.MustCompile(`[^A-Za-z0-9_.-]+`)
	s = re.ReplaceAllString(s, "_")
	if len(s) > 120 {
		s = s[:120]
	}
	return s
}

var namedAssumptions = []string{
	"T1: the verifier itself (govc: Go semantics of the supported subset, value semantics for slices/maps owned by the instance), go/types, the SMT solvers",
	"T2: partial correctness only; termination is not proved",
	"A1: single-threaded use of one DBFT instance (the application serialises API calls)",
	"A2: callbacks and interface implementations do not re-enter or mutate the instance; payload/block/key getters are immutable functions of the object",
	"A3: constructor callbacks return fresh objects with the obvious attributes (see the extern clauses listed below)",
	"A4: GetValidators returns 1..65535 keys; GetKeyPair returns -1 or an index into the list, the same for the same list; callbacks that checkConfig does not check are non-nil",
	"A5: production zap logger: DPanic does not panic, Fatal ends the path",
	"A8: configuration sanity (TimestampIncrement >= 1, 0 < TimePerBlock <= 2^36 ns, TimePerBlock <= MaxTimePerBlock <= 2^40 ns, previous timestamp + increment < 2^64, enabling height in [-1, 2^32))",
	"A9: stdlib contracts assumed (slices.Index/Delete, clear, append, time.Time.Sub/UnixNano/IsZero, clock readings within 1970..2116)",
	"integers: mathematical Int with explicit range facts per Go type; int/uint are 64 bit; overflow is an obligation except where the contract file says 'wraps' (listed)",
}

var consensusAssumptions = []string{
	"T1: the verifier itself (govc: Go semantics of the supported subset; struct values held in slices are references to copies; pointers to non-struct values are per-type boxes), go/types, the SMT solvers",
	"T2: partial correctness only; termination is not proved",
	"A-GOB: encoding/gob is not modelled beyond its interface: Encode receives the value it is given, Decode leaves an arbitrary value of the pointee's type. That Decode reproduces what Encode was given and that different values have different encodings is assumed, not proved; the round trip and the sensitivity of the hash to every field follow from the proved field-completeness clauses only together with this assumption. KNOWN TO HOLD ONLY WITHIN ONE PROCESS: gob writes process-wide type numbers (assigned in order of first use) into the stream, so the same payload hashes differently in a process that encoded another message kind first (replays_known/C19_gob_type_ids_test.go.txt, DESIGN.md section 14)",
	"A-HASH: crypto.Hash256 is a function of the bytes (pure); SHA-256 collision resistance and ECDSA correctness (Go's crypto) are outside the contracts. internal/merkle is under contract level by level (leaves = the given hashes in order, each inner node = Hash256 of its two children's hashes, next level built from exactly these nodes); that the ROOT therefore changes with every leaf or order change is the induction over these facts with a collision-resistant hash: argued, not mechanised. The depth counter of NewMerkleTree is exempt from the overflow check (at most 64 levels, not proved). The extern clauses for merkle.NewMerkleTree/Root in the contracts of internal/consensus restate proved post-conditions",
	"A-DISPATCH: interface values of dbft.ConsensusPayload and Serializable handled inside the package are its own *Payload and body types (the extern clauses for ConsensusPayload.SetValidatorIndex, Serializable.EncodeBinary/DecodeBinary restate the proved contracts of those methods)",
	"A-FRESH: an object allocated by new/&T{} differs from every reference the state held before (Go allocation)",
	"integers: mathematical Int with explicit range facts per Go type; overflow is an obligation except where the contract file says 'wraps' (listed)",
}

func cmdCheck(args []string) int {
	prop, tier, repo, verifDir := "", "quick", "/repo", "/verif"
	only := ""
	knownFile := ""
	for i := 0; i < len(args); i++ {
		switch args[i] {
		case "-prop":
			i++
			prop = args[i]
		case "-tier":
			i++
			tier = args[i]
		case "-repo":
			i++
			repo = args[i]
		case "-verif":
			i++
			verifDir = args[i]
		case "-pkg":
			i++
			only = args[i]
		case "-known":
			i++
			knownFile = args[i]
		}
	}
	if prop == "" {
		fmt.Fprintln(os.Stderr, "usage: govc check -prop Cnn [-tier quick|thorough]")
		return 2
	}
	seed := 0
	fmt.Sscan(os.Getenv("VERIF_SEED"), &seed)
	start := time.Now()
	w, err := LoadWorld(repo)
	if err != nil {
		fmt.Printf("UNDECIDED property=%s: cannot load %s with -tags verif: %v\n", prop, repo, err)
		return 2
	}
	cfg := RunConfig{TimeoutMs: 30000, Workers: 10, RetryFactor: 4}
	if tier == "thorough" {
		cfg = RunConfig{TimeoutMs: 120000, Workers: 8, All: true, RetryFactor: 3}
	}
	if knownFile == "" {
		knownFile = filepath.Join(verifDir, "known_findings.txt")
	}
	known, fixed := loadKnown(knownFile)
	cfg.NoRetry = map[string]bool{}
	for _, k := range known {
		cfg.NoRetry[k.Obligation] = true
	}
	oc := runProperty(w, prop, cfg, only)
	violations := 0
	proved := 0
	var knownHit []string
	var samples []any
	// findings about a named ASSUMPTION of the property (nothing the contracts could decide; they suppress nothing)
	for _, k := range known {
		if k.Property == prop && strings.HasPrefix(k.Obligation, "A-") {
			fmt.Printf("KNOWN-FINDING: property=%s assumption=%s %s\n", prop, k.Obligation, k.Text)
		}
	}
	replayDir := filepath.Join(verifDir, "replays", prop)
	for _, s := range oc.sites {
		if s.Verdict == "proved" {
			proved++
			if len(samples) < 12 {
				samples = append(samples, s)
			}
			continue
		}
		isKnown := false
		for _, k := range known {
			if k.Property == prop && k.Obligation == s.Name {
				isKnown = true
				fmt.Printf("KNOWN-FINDING: property=%s obligation=%s %s\n", prop, s.Name, k.Text)
				knownHit = append(knownHit, s.Name)
			}
		}
		samples = append(samples, s)
		if isKnown {
			continue
		}
		violations++
		os.MkdirAll(replayDir, 0o755)
		rp := filepath.Join(replayDir, sanitize(s.Name)+".json")
		suffix := " no-failing-input-found"
		replay := map[string]any{
			"property": prop, "obligation": s.Name, "kind": s.Kind, "function": s.Func, "at": s.Pos, "clause": s.Clause,
			"verdict": s.Verdict, "solver_note": s.Note, "model": s.Model, "path_instances": s.Instances,
			"meaning": "this proof obligation is discharged on the unchanged tree and is not discharged on this tree",
		}
		if len(s.failed) > 0 {
			o := s.failed[0]
			for _, f := range s.failed {
				if f.Verdict == VSat && f.Model != "" {
					o = f
					break
				}
			}
			replay["solver"] = o.Solver
			replay["solver_output"] = o.Verdict.String() + "\n" + o.Model
			if rr := tryReplay(w, o, repo); rr != nil {
				replay["replay"] = rr
				if rr.Confirmed {
					suffix = ""
				}
			}
		}
		b, _ := json.MarshalIndent(replay, "", " ")
		os.WriteFile(rp, b, 0o644)
		fmt.Printf("VIOLATION property=%s replay=%s%s\n", prop, rp, suffix)
	}
	exit := 0
	if violations > 0 {
		exit = 1
	}
	var undecided []string
	if len(oc.vacuityBad) > 0 {
		for _, v := range oc.vacuityBad {
			undecided = append(undecided, "contradictory precondition or unreachable loop body (the proof would be vacuous): "+v)
		}
	}
	if oc.total == 0 {
		undecided = append(undecided, "no obligation carries this property tag")
	}
	for _, e := range oc.errs {
		undecided = append(undecided, e)
	}
	if len(undecided) > 0 && exit == 0 {
		for _, u := range undecided {
			fmt.Printf("UNDECIDED property=%s: %s\n", prop, u)
		}
		exit = 2
	}
	// evidence
	var inl, warns []string
	for k := range oc.inlined {
		inl = append(inl, k)
	}
	for k := range oc.warnings {
		warns = append(warns, k)
	}
	sort.Strings(inl)
	sort.Strings(warns)
	sort.Strings(oc.funcs)
	trusted := append([]string{}, namedAssumptions...)
	if oc.pkgsUsed["consensus"] && len(oc.pkgsUsed) == 1 {
		trusted = append([]string{}, consensusAssumptions...)
	}
	for _, s := range oc.scan {
		trusted = append(trusted, "contract file: "+s)
	}
	for _, s := range warns {
		trusted = append(trusted, "unmodelled: "+s)
	}
	discharged := proved
	ev := map[string]any{
		"property_id": prop, "tier": tier, "seed": seed, "level": "proof",
		"coverage": map[string]any{
			"obligations": len(oc.sites) - len(knownHit), "discharged": discharged,
			"obligations_including_known_findings": len(oc.sites),
			"obligation_instances_over_paths":      oc.total,
			"checker_cmd":                          fmt.Sprintf("bin/govc check -prop %s -tier %s (VC generation over the typed AST of %s with -tags verif; z3-new 5.1.0, then z3 4.8.12 and cvc5 raced)", prop, tier, repo),
			"trusted_base":                         trusted,
			"samples":                              samples,
			"functions_under_contract":             oc.funcs,
			"inlined_functions":                    inl,
			"by_solver":                            oc.bySolver,
			"generation_ms":                        oc.genMs,
			"solver_wall_ms":                       oc.solveMs,
			"known_finding_obligations":            knownHit,
			"fixed_entries":                        fixed,
			"undecided":                            undecided,
			"failed_obligations":                   len(oc.sites) - proved - len(knownHit),
			"explanation":                          propertyExplanation[prop],
		},
		"assumptions": trusted,
		"wall_s":      time.Since(start).Seconds(),
		"violations":  violations,
	}
	if len(knownHit) > 0 {
		ev["coverage"].(map[string]any)["note"] = "the property does NOT hold on this tree: the listed known-finding obligations fail (see known_findings.txt)"
	}
	os.MkdirAll(filepath.Join(verifDir, "evidence"), 0o755)
	b, _ := json.MarshalIndent(ev, "", " ")
	os.WriteFile(filepath.Join(verifDir, "evidence", prop+".json"), b, 0o644)
	fmt.Printf("property=%s tier=%s obligations=%d discharged=%d known=%d violations=%d undecided=%d wall=%.1fs\n",
		prop, tier, len(oc.sites), proved, len(knownHit), violations, len(undecided), time.Since(start).Seconds())
	return exit
}

var propertyExplanation = map[string]string{
	"C01": "Agreement, modular: decision-certificate obligations at the ProcessBlock call (>= M distinct current-view commits verified against exactly the accepted block), quorum arithmetic (2M-N >= F+1 for all N), ledger position / validator list read only at re-initialisation; cross-node counting step is the textbook quorum-intersection argument (stated, not mechanised).",
	"C02": "Decision certificate at the ProcessBlock / ProcessPreBlock call sites plus the invariants VERC, PROP and tip preserved by every function; block content obligations at SetTransactions and NewBlockFromContext.",
	"C03": "Ghost variables for what the node has said; monitor preconditions on broadcast (single caller of the Broadcast callback); commit lock as two-state clause of every function; linking invariant SAID.",
	"C04": "Preconditions of sendPrepareResponse, sendCommit, sendPreCommit and initializeConsensus(view>0) written from the statement; counting loops proved against count(); PREP invariant.",
	"C05": "Single guarded ProcessBlock call site, quiescence frames of the API under a decided height, full post-condition of reset, cache purge with a loop contract.",
	"C06": "Functional post-conditions of N/F/M/GetPrimaryIndex and arithmetic lemmas for all N in 1..65535, all heights, all views.",
	"C07": "Mode-split preconditions of the commit / pre-commit senders, single guarded ProcessPreBlock call site, header creation and signing only after the pre-block, functional contract of isAntiMEVExtensionEnabled.",
	"C10": "Ghost timer updated by the contract of Timer.Reset; timerOK at API exits (two-state umbrella clause), re-arm clause of onTimeout, non-negative durations under A-VIEW.",
	"C11": "Every run-time check site reachable from the API is an obligation (no-panic sweep); well-formedness invariants; one frame clause per class of inadmissible or repeated input.",
	"C12": "If OnTransaction stored the transaction, the view is unchanged, all transactions are held and the node is an active backup, then the call broadcast an answer; transactions are kept within a view.",
	"C13": "broadcast requires a validator index and a cleared watch-only flag; propagated through every sender; the sent-predicates have functional contracts as watch-only filters.",
	"C14": "Frame part only: no wall-clock function of package time is called anywhere in package dbft (syntactic table) and an obligation fails at any such call met by the symbolic executor; plus the shift lemma for the proposal timestamp formula.",
	"C15": "Functional post-conditions of Fill and getTimestamp, argument obligation at NewPrepareRequest, writers table for the proposal fields, the timestamp base is fixed within a height.",
	"C16": "PARTIAL: per-call mechanism clauses of the dynamic block time extension; network-time spacing is not decided.",
	"C17": "PARTIAL: typestate assertion on the example's event loop (never waits with a decided instance) against assumed API contracts.",
	"C19": "Reference payload/block code: every field goes to the encoder and comes back from the decoder, the payload hash cache is never filled, the hashed block data is exactly the header, rebuilt recovery payloads carry the stored fields, decoders do not panic; the Merkle tree is built level by level from exactly the given hashes; signatures are made and checked over the SHA-256 digest of the whole message; encoded bytes handed out are the call's own; the reference callbacks keep what package dbft assumes of its callbacks. gob, SHA-256 and ECDSA themselves are assumed (A-GOB, A-HASH).",
	"C18": "Data invariant of timer.Timer over a ghost model of clock, channel and time.Timer deadlines; scheduling tolerance not decided.",
}

// ReplayResult describes an attempt to run a counterexample against the real code.
type ReplayResult struct {
	Confirmed bool   `json:"confirmed"`
	How       string `json:"how"`
	Output    string `json:"output,omitempty"`
}

func tryReplay(w *World, o *Obligation, repo string) *ReplayResult {
	return replayObligation(w, o, repo)
}

func specMentionsTag(sp *FuncSpec, p string) bool {
	if sp == nil {
		return false
	}
	chk := func(cs []*Clause) bool {
		for _, c := range cs {
			if hasTag(c.Tags, p) {
				return true
			}
		}
		return false
	}
	if chk(sp.Requires) || chk(sp.Ensures) || chk(sp.Assumes) || hasTag(sp.ModTags, p) || hasTag(sp.NoPanic, p) {
		return true
	}
	for _, l := range sp.Loops {
		if chk(l.Invariants) {
			return true
		}
	}
	for _, a := range sp.AtCall {
		if chk(a.Asserts) {
			return true
		}
	}
	return false
}
