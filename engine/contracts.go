package main

// Parser for the //@ contract language kept in contracts_verif.go files.

import (
	"fmt"
	"go/ast"
	"go/parser"
	"os"
	"regexp"
	"strconv"
	"strings"
)

type Clause struct {
	Kind   string // requires ensures invariant assert ghost assume
	Tags   []string
	Label  string
	Text   string
	Expr   ast.Expr // parsed expression (for ghost: RHS)
	Target string   // ghost: LHS name
	File   string
	Line   int
}

type LoopSpec struct {
	Invariants []*Clause
}

type CallSpec struct {
	Asserts []*Clause
	Ghosts  []*Clause
}

type FuncSpec struct {
	Key          string // "(*DBFT).checkCommit", "emptyReusableSlice"
	Extern       bool
	Pure         bool // extern only: result is a function of receiver+args, no effects
	Requires     []*Clause
	Assumes      []*Clause // assumptions at entry that callers need not establish (named assumptions only; listed in evidence)
	Ensures      []*Clause
	Modifies     []string // location patterns; "*" = everything
	ModTags      []string
	HasMod       bool
	Inline       bool
	Trusted      string
	Loops        map[int]*LoopSpec
	AtCall       map[string]*CallSpec // key "callee" or "callee#n"
	LoopCountSet bool
	LoopCount    int                 // "loops N": the number of loops the function had when the contract was written (0 = not stated)
	Ghosts       []*Clause           // executed at the call (extern) or at exit (func)
	Wraps        map[string]bool     // operator texts where wrap-around is intended
	WrapsIf      map[string]ast.Expr // operator text -> condition under which the result is in range (assumption)
	NoPanic      []string            // tags override for run-time checks
	File         string
	Line         int
	Params       []string // parameter names for use in clauses, by position (extern: the only names; func: the names the clauses were written with)
	RecvName     string   // func: the receiver name the clauses were written with
	Results      []string
	MayPanic     bool
	Terminate    bool // extern: never returns (e.g. Logger.Fatal)
}

type GhostDecl struct {
	Name string
	Sort Sort
	Init ast.Expr
	Elem string // RefSeq: name of the Go element type (for method calls on elements in specs)
}

type Pred struct {
	Name   string
	Params []string
	Body   ast.Expr
	Text   string
}

type Contracts struct {
	Ghosts    []*GhostDecl
	GhostIdx  map[string]*GhostDecl
	Preds     map[string]*Pred
	Pure      map[string]bool // "ConsensusPayload.ViewNumber"
	Externs   map[string]*FuncSpec
	Funcs     map[string]*FuncSpec
	Singleton string            // root struct name
	Receivers map[string]string // struct name -> static path prefix ("" for root)
	Aliases   map[string]string // static path -> static path
	Opaque    map[string]bool   // struct types treated as opaque scalars
	Options   map[string]bool   // package-wide modelling options (freshalloc)
	RunTags   []string          // tags for run-time check obligations in this package
	Scan      []string          // every assume/pure/trusted/wraps/extern line (for evidence)
	Lemmas    []*Lemma
	Writers   []*WriterRule
	Bundles   map[string]*FuncSpec
	Axioms    []*Lemma
	Uses      string // name of a package whose singleton state this package drives (usage contracts)
}

// Lemma: a closed proof obligation over spec predicates only.
type Lemma struct {
	Name   string
	Tags   []string
	Params []string // "n Int"
	Body   ast.Expr
	Text   string
	File   string
	Line   int
}

// WriterRule: "writers <loc> : f1, f2" – the location may be assigned only in these functions.
type WriterRule struct {
	Tags    []string
	Kind    string // "writers" (field assigned), "callers" (function/callback called), "forbid" (package function never called)
	Subject string
	Allowed []string
	Line    int
}

var keywordRe = regexp.MustCompile(`^(requires|ensures|assume|modifies|bundle|use|axiom|inline|trusted|loop|at|ghost|wraps|func|pred|pure|extern|singleton|uses|receiver|alias|opaque|runtags|lemma|writers|callers|forbid|params|results|nopanic|terminates|maypanic|option|loops|recvname)\b`)

func newContracts() *Contracts {
	return &Contracts{
		GhostIdx: map[string]*GhostDecl{}, Preds: map[string]*Pred{}, Pure: map[string]bool{},
		Externs: map[string]*FuncSpec{}, Funcs: map[string]*FuncSpec{},
		Bundles: map[string]*FuncSpec{}, Receivers: map[string]string{}, Aliases: map[string]string{}, Opaque: map[string]bool{}, Options: map[string]bool{},
	}
}

func parseTags(s string) ([]string, string) {
	s = strings.TrimSpace(s)
	if !strings.HasPrefix(s, "[") {
		return nil, s
	}
	end := strings.Index(s, "]")
	if end < 0 {
		return nil, s
	}
	var tags []string
	for _, t := range strings.Split(s[1:end], ",") {
		t = strings.TrimSpace(t)
		if t != "" {
			tags = append(tags, t)
		}
	}
	return tags, strings.TrimSpace(s[end+1:])
}

func parseLabel(s string) (string, string) {
	s = strings.TrimSpace(s)
	if strings.HasPrefix(s, "@") {
		f := strings.Fields(s)
		return f[0][1:], strings.TrimSpace(s[len(f[0]):])
	}
	return "", s
}

func parseSpecExpr(text, file string, line int) (ast.Expr, error) {
	e, err := parser.ParseExpr(text)
	if err != nil {
		return nil, fmt.Errorf("%s:%d: cannot parse spec expression %q: %v", file, line, text, err)
	}
	return e, nil
}

func sortByName(s string) (Sort, error) {
	switch s {
	case "Int":
		return SInt, nil
	case "Bool":
		return SBool, nil
	case "Ref":
		return SRef, nil
	case "RefSeq":
		return "RefSeq", nil
	case "IntSeq":
		return "IntSeq", nil
	}
	return "", fmt.Errorf("unknown sort %q", s)
}

// ParseContracts reads one contracts_verif.go file.
func ParseContracts(file string, c *Contracts) error {
	data, err := os.ReadFile(file)
	if err != nil {
		return err
	}
	type rawLine struct {
		text string
		line int
	}
	var lines []rawLine
	for i, l := range strings.Split(string(data), "\n") {
		t := strings.TrimSpace(l)
		if !strings.HasPrefix(t, "//@") {
			continue
		}
		t = strings.TrimSpace(t[3:])
		if t == "" || strings.HasPrefix(t, "#") {
			continue
		}
		// join continuation lines
		if len(lines) > 0 && !keywordRe.MatchString(t) {
			lines[len(lines)-1].text += " " + t
			continue
		}
		lines = append(lines, rawLine{t, i + 1})
	}
	var cur *FuncSpec
	mkClause := func(kind, rest string, line int) (*Clause, error) {
		tags, rest := parseTags(rest)
		label, rest := parseLabel(rest)
		cl := &Clause{Kind: kind, Tags: tags, Label: label, Text: rest, File: file, Line: line}
		if kind == "ghost" {
			lhs, rhs, ok := strings.Cut(rest, "=")
			if !ok {
				return nil, fmt.Errorf("%s:%d: ghost statement needs '='", file, line)
			}
			cl.Target = strings.TrimSpace(lhs)
			rest = strings.TrimSpace(rhs)
		}
		e, err := parseSpecExpr(rest, file, line)
		if err != nil {
			return nil, err
		}
		cl.Expr = e
		return cl, nil
	}
	for _, rl := range lines {
		t, line := rl.text, rl.line
		kw := keywordRe.FindString(t)
		rest := strings.TrimSpace(t[len(kw):])
		switch kw {
		case "singleton":
			c.Singleton = rest
			c.Receivers[rest] = ""
		case "uses":
			c.Uses = rest
		case "receiver":
			// receiver Context = Context.
			name, path, ok := strings.Cut(rest, "=")
			if !ok {
				return fmt.Errorf("%s:%d: receiver needs '='", file, line)
			}
			c.Receivers[strings.TrimSpace(name)] = strings.TrimSpace(path)
		case "alias":
			a, b, ok := strings.Cut(rest, "=")
			if !ok {
				return fmt.Errorf("%s:%d: alias needs '='", file, line)
			}
			c.Aliases[strings.TrimSpace(a)] = strings.TrimSpace(b)
		case "opaque":
			c.Opaque[rest] = true
		case "option":
			c.Options[rest] = true
		case "runtags":
			tags, _ := parseTags(rest)
			c.RunTags = tags
		case "ghost":
			if f := strings.Fields(rest); len(f) >= 2 && (f[1] == "Int" || f[1] == "Bool" || f[1] == "Ref" || f[1] == "RefSeq" || f[1] == "IntSeq") {
				// declaration: ghost name Sort = init
				s, err := sortByName(f[1])
				if err != nil {
					return fmt.Errorf("%s:%d: %v", file, line, err)
				}
				g := &GhostDecl{Name: f[0], Sort: s}
				if len(f) >= 3 && f[2] != "=" {
					g.Elem = f[2]
				}
				if _, init, ok := strings.Cut(rest, "="); ok {
					e, err := parseSpecExpr(strings.TrimSpace(init), file, line)
					if err != nil {
						return err
					}
					g.Init = e
				}
				c.Ghosts = append(c.Ghosts, g)
				c.GhostIdx[g.Name] = g
				continue
			}
			cl, err := mkClause("ghost", rest, line)
			if err != nil {
				return err
			}
			cur.Ghosts = append(cur.Ghosts, cl)
		case "pred":
			// pred name(a, b) = expr
			head, body, ok := strings.Cut(rest, "=")
			if !ok {
				return fmt.Errorf("%s:%d: pred needs '='", file, line)
			}
			// the first '=' might belong to '==' inside params? params have no '='.
			head = strings.TrimSpace(head)
			op := strings.Index(head, "(")
			cp := strings.LastIndex(head, ")")
			if op < 0 || cp < op {
				return fmt.Errorf("%s:%d: pred head", file, line)
			}
			p := &Pred{Name: strings.TrimSpace(head[:op]), Text: strings.TrimSpace(body)}
			for _, a := range strings.Split(head[op+1:cp], ",") {
				a = strings.TrimSpace(a)
				if a != "" {
					p.Params = append(p.Params, strings.Fields(a)[0])
				}
			}
			e, err := parseSpecExpr(p.Text, file, line)
			if err != nil {
				return err
			}
			p.Body = e
			c.Preds[p.Name] = p
			cur = nil
		case "lemma":
			// lemma [tags] name(n, m) = expr
			tags, r2 := parseTags(rest)
			head, body, ok := strings.Cut(r2, "=")
			if !ok {
				return fmt.Errorf("%s:%d: lemma needs '='", file, line)
			}
			head = strings.TrimSpace(head)
			op := strings.Index(head, "(")
			cp := strings.LastIndex(head, ")")
			l := &Lemma{Name: strings.TrimSpace(head[:op]), Tags: tags, Text: strings.TrimSpace(body), File: file, Line: line}
			for _, a := range strings.Split(head[op+1:cp], ",") {
				a = strings.TrimSpace(a)
				if a != "" {
					l.Params = append(l.Params, strings.Fields(a)[0])
				}
			}
			e, err := parseSpecExpr(l.Text, file, line)
			if err != nil {
				return err
			}
			l.Body = e
			c.Lemmas = append(c.Lemmas, l)
			cur = nil
		case "axiom":
			name, body, ok := strings.Cut(rest, "=")
			if !ok {
				return fmt.Errorf("%s:%d: axiom needs '='", file, line)
			}
			l := &Lemma{Name: strings.TrimSpace(name), Text: strings.TrimSpace(body), File: file, Line: line}
			e, err := parseSpecExpr(l.Text, file, line)
			if err != nil {
				return err
			}
			l.Body = e
			c.Axioms = append(c.Axioms, l)
			c.Scan = append(c.Scan, "axiom "+l.Name+": "+l.Text)
			cur = nil
		case "writers", "callers", "forbid":
			tags, r2 := parseTags(rest)
			subj, allowed, _ := strings.Cut(r2, ":")
			w := &WriterRule{Tags: tags, Kind: kw, Subject: strings.TrimSpace(subj), Line: line}
			for _, a := range strings.Split(allowed, ",") {
				a = strings.TrimSpace(a)
				if a != "" {
					w.Allowed = append(w.Allowed, a)
				}
			}
			c.Writers = append(c.Writers, w)
			cur = nil
		case "pure":
			if cur != nil && cur.Extern && rest == "" {
				cur.Pure = true
				continue
			}
			c.Pure[rest] = true
			c.Scan = append(c.Scan, "pure "+rest)
			cur = nil
		case "extern":
			cur = &FuncSpec{Key: rest, Extern: true, Loops: map[int]*LoopSpec{}, AtCall: map[string]*CallSpec{}, Wraps: map[string]bool{}, WrapsIf: map[string]ast.Expr{}, File: file, Line: line}
			c.Externs[rest] = cur
			c.Scan = append(c.Scan, "extern "+rest)
		case "func":
			cur = &FuncSpec{Key: rest, Loops: map[int]*LoopSpec{}, AtCall: map[string]*CallSpec{}, Wraps: map[string]bool{}, WrapsIf: map[string]ast.Expr{}, File: file, Line: line}
			if _, dup := c.Funcs[rest]; dup {
				return fmt.Errorf("%s:%d: duplicate contract for %s", file, line, rest)
			}
			c.Funcs[rest] = cur
		case "bundle":
			cur = &FuncSpec{Key: "bundle " + rest, Loops: map[int]*LoopSpec{}, AtCall: map[string]*CallSpec{}, Wraps: map[string]bool{}, WrapsIf: map[string]ast.Expr{}, File: file, Line: line}
			c.Bundles[rest] = cur
		case "use":
			b := c.Bundles[rest]
			if b == nil || cur == nil {
				return fmt.Errorf("%s:%d: unknown bundle %q", file, line, rest)
			}
			cur.Requires = append(cur.Requires, b.Requires...)
			cur.Ensures = append(cur.Ensures, b.Ensures...)
			cur.Ghosts = append(cur.Ghosts, b.Ghosts...)
			if b.HasMod {
				cur.HasMod = true
				cur.Modifies = append(cur.Modifies, b.Modifies...)
				cur.ModTags = append(cur.ModTags, b.ModTags...)
			}
		case "loops":
			if cur == nil {
				return fmt.Errorf("%s:%d: loops outside func", file, line)
			}
			n, err := strconv.Atoi(strings.TrimSpace(rest))
			if err != nil {
				return fmt.Errorf("%s:%d: loops N", file, line)
			}
			cur.LoopCount = n
			cur.LoopCountSet = true
		case "params":
			if cur == nil {
				return fmt.Errorf("%s:%d: params outside func", file, line)
			}
			for _, a := range strings.Split(rest, ",") {
				cur.Params = append(cur.Params, strings.TrimSpace(a))
			}
		case "recvname":
			if cur == nil {
				return fmt.Errorf("%s:%d: recvname outside func", file, line)
			}
			cur.RecvName = strings.TrimSpace(rest)
		case "results":
			for _, a := range strings.Split(rest, ",") {
				cur.Results = append(cur.Results, strings.TrimSpace(a))
			}
		case "terminates":
			cur.Terminate = true
		case "maypanic":
			cur.MayPanic = true
		case "assume":
			if cur == nil {
				return fmt.Errorf("%s:%d: assume outside func", file, line)
			}
			cl, err := mkClause("assume", rest, line)
			if err != nil {
				return err
			}
			cur.Assumes = append(cur.Assumes, cl)
			c.Scan = append(c.Scan, fmt.Sprintf("ASSUMED at entry of %s (not checked at call sites): %s", cur.Key, cl.Text))
		case "requires", "ensures":
			if cur == nil {
				return fmt.Errorf("%s:%d: %s outside func", file, line, kw)
			}
			cl, err := mkClause(kw, rest, line)
			if err != nil {
				return err
			}
			if kw == "requires" {
				cur.Requires = append(cur.Requires, cl)
			} else {
				cur.Ensures = append(cur.Ensures, cl)
			}
			if cur.Extern {
				c.Scan = append(c.Scan, fmt.Sprintf("assumed %s of extern %s: %s", kw, cur.Key, cl.Text))
			}
		case "modifies":
			if cur == nil {
				return fmt.Errorf("%s:%d: modifies outside func", file, line)
			}
			tags, r2 := parseTags(rest)
			cur.HasMod = true
			cur.ModTags = append(cur.ModTags, tags...)
			for _, a := range strings.Split(r2, ",") {
				a = strings.TrimSpace(a)
				if a != "" && a != "nothing" {
					cur.Modifies = append(cur.Modifies, a)
				}
			}
		case "inline":
			cur.Inline = true
		case "trusted":
			cur.Trusted = rest
			c.Scan = append(c.Scan, "trusted "+cur.Key+": "+rest)
		case "wraps":
			if txt, cond, ok := strings.Cut(rest, " unless "); ok {
				e, err := parseSpecExpr(strings.TrimSpace(cond), file, line)
				if err != nil {
					return err
				}
				cur.WrapsIf[strings.TrimSpace(txt)] = e
				c.Scan = append(c.Scan, "overflow of "+strings.TrimSpace(txt)+" in "+cur.Key+" checked only under: "+strings.TrimSpace(cond))
			} else {
				cur.Wraps[rest] = true
				c.Scan = append(c.Scan, "wraps "+cur.Key+": "+rest)
			}
		case "nopanic":
			tags, _ := parseTags(rest)
			cur.NoPanic = tags
		case "loop":
			// loop 1: invariant [tags] expr
			n, r2, ok := strings.Cut(rest, ":")
			if !ok {
				return fmt.Errorf("%s:%d: loop N: invariant ...", file, line)
			}
			idx, err := strconv.Atoi(strings.TrimSpace(n))
			if err != nil {
				return fmt.Errorf("%s:%d: loop ordinal: %v", file, line, err)
			}
			r2 = strings.TrimSpace(r2)
			if strings.HasPrefix(r2, "use ") {
				b := c.Bundles[strings.TrimSpace(r2[4:])]
				if b == nil {
					return fmt.Errorf("%s:%d: unknown bundle %q", file, line, r2[4:])
				}
				ls := cur.Loops[idx]
				if ls == nil {
					ls = &LoopSpec{}
					cur.Loops[idx] = ls
				}
				for _, en := range b.Ensures {
					cp := *en
					cp.Kind = "invariant"
					ls.Invariants = append(ls.Invariants, &cp)
				}
				continue
			}
			if !strings.HasPrefix(r2, "invariant") {
				return fmt.Errorf("%s:%d: expected 'invariant'", file, line)
			}
			cl, err := mkClause("invariant", strings.TrimSpace(r2[len("invariant"):]), line)
			if err != nil {
				return err
			}
			ls := cur.Loops[idx]
			if ls == nil {
				ls = &LoopSpec{}
				cur.Loops[idx] = ls
			}
			ls.Invariants = append(ls.Invariants, cl)
		case "at":
			// at call d.ProcessBlock: assert [tags] expr   |  ghost x = e
			r2 := strings.TrimSpace(strings.TrimPrefix(rest, "call"))
			callee, body, ok := strings.Cut(r2, ":")
			if !ok {
				return fmt.Errorf("%s:%d: at call X: assert ...", file, line)
			}
			callee = strings.TrimSpace(callee)
			body = strings.TrimSpace(body)
			cs := cur.AtCall[callee]
			if cs == nil {
				cs = &CallSpec{}
				cur.AtCall[callee] = cs
			}
			switch {
			case strings.HasPrefix(body, "assert"):
				cl, err := mkClause("assert", strings.TrimSpace(body[len("assert"):]), line)
				if err != nil {
					return err
				}
				cs.Asserts = append(cs.Asserts, cl)
			case strings.HasPrefix(body, "ghost"):
				cl, err := mkClause("ghost", strings.TrimSpace(body[len("ghost"):]), line)
				if err != nil {
					return err
				}
				cs.Ghosts = append(cs.Ghosts, cl)
			default:
				return fmt.Errorf("%s:%d: at call: assert or ghost expected", file, line)
			}
		default:
			return fmt.Errorf("%s:%d: unknown contract line %q", file, line, t)
		}
	}
	return nil
}
